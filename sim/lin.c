#include "simint.h"
void hist_reset(int model, int capacity) { (void)model; (void)capacity; }
int hist_invoke(int thread, int op, long arg) { (void)thread; (void)op; (void)arg; return 0; }
void hist_return(int idx, long res) { (void)idx; (void)res; }
void hist_drop(int idx) { (void)idx; }
int hist_count(void) { return 0; }
int hist_check(char* msg, size_t n) { (void)msg; (void)n; return 0; }
