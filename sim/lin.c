/* Linearizability checking of recorded histories (Wing & Gong search with
 * memoisation on (linearised set, model state)), with pluggable sequential
 * models.  Time stamps are a global event counter bumped by hist_invoke /
 * hist_return, which are called from uninstrumented (schedule-atomic) code, so
 * there are no ties.  NOT instrumented. */
#include "simint.h"

#define HMAX 64
typedef struct {
  int thread, op;
  long arg, res;
  uint64_t inv, ret;
  int live, done;
  int overlaps_push, overlaps_any;
} hop_t;
static hop_t H[HMAX];
static int nh, model, capacity;
static uint64_t hclock;

void hist_reset(int m, int cap) {
  nh = 0;
  model = m;
  capacity = cap;
  hclock = 0;
}
int hist_invoke(int thread, int op, long arg) {
  sim_tso_sync();
  if (nh >= HMAX) sim_violation("SIM-history-overflow", "more than %d operations recorded", HMAX);
  hop_t* h = &H[nh];
  memset(h, 0, sizeof *h);
  h->thread = thread;
  h->op = op;
  h->arg = arg;
  h->inv = ++hclock;
  h->live = 1;
  return nh++;
}
void hist_return(int idx, long res) {
  /* TSO runs: an operation counts as complete when its stores have drained - the recorded real-time order is
   * the simulator's global clock, which no observer on real hardware has */
  sim_tso_sync();
  H[idx].res = res;
  H[idx].ret = ++hclock;
  H[idx].done = 1;
}
void hist_drop(int idx) { H[idx].live = 0; }
int hist_count(void) {
  int n = 0;
  for (int i = 0; i < nh; i++) n += H[i].live;
  return n;
}

/* ---- sequential models over a small sequence of values ---- */
typedef struct {
  long v[HMAX];
  int n;
} mstate_t;
static uint64_t seq_hash(const long* v, int n, int reverse) {
  uint64_t h = 1469598103934665603ull ^ (uint64_t)n;
  for (int i = 0; i < n; i++) {
    long x = reverse ? v[n - 1 - i] : v[i];
    h = (h ^ (uint64_t)x) * 1099511628211ull;
  }
  return h & 0x7fffffffffffffffull;
}
uint64_t hist_seq_hash(const long* v, int n) { return seq_hash(v, n, 0); }
/* apply op to state; returns 1 if the recorded result is what the model allows */
static int apply(const hop_t* h, mstate_t* s) {
  switch (model) {
    case M_FIFO:
    case M_BFIFO:
      if (h->op == OP_PUSH || h->op == OP_TRYPUSH) {
        if (h->res == RES_FAIL) {
          if (h->op == OP_PUSH) return 0;
          return (model == M_BFIFO && s->n >= capacity) || h->overlaps_any;
        }
        if (model == M_BFIFO && s->n >= capacity) return 0; /* would exceed the capacity */
        s->v[s->n++] = h->arg;
        return 1;
      }
      if (h->op == OP_POP) {
        if (h->res == RES_EMPTY) return s->n == 0 || (model == M_FIFO ? h->overlaps_push : h->overlaps_any);
        if (s->n == 0 || s->v[0] != h->res) return 0;
        memmove(&s->v[0], &s->v[1], sizeof(long) * (s->n - 1));
        s->n--;
        return 1;
      }
      return 0;
    case M_LIFO:
      if (h->op == OP_PUSH) {
        s->v[s->n++] = h->arg;
        return 1;
      }
      if (h->op == OP_POP) {
        if (h->res == RES_EMPTY) return s->n == 0;
        if (s->n == 0 || s->v[s->n - 1] != h->res) return 0;
        s->n--;
        return 1;
      }
      return 0;
    case M_STACK_FLUSH:
      if (h->op == OP_PUSH) {
        s->v[s->n++] = h->arg;
        return 1;
      }
      if (h->op == OP_FLUSH_LIFO || h->op == OP_FLUSH_FIFO) {
        /* lifo flush hands the content newest first, fifo flush oldest first */
        uint64_t want = seq_hash(s->v, s->n, h->op == OP_FLUSH_LIFO);
        if ((uint64_t)h->res != want) return 0;
        s->n = 0;
        return 1;
      }
      return 0;
  }
  return 0;
}
#define MEMO (1 << 18)
static uint64_t memo[MEMO];
static int memo_used;
static int memo_seen(uint64_t mask, const mstate_t* s) {
  uint64_t k = (seq_hash(s->v, s->n, 0) * 0x9e3779b97f4a7c15ull) ^ (mask * 0xd1b54a32d192ed03ull);
  if (!k) k = 1;
  uint64_t i = (k >> 20) & (MEMO - 1);
  for (int probe = 0; probe < 64; probe++, i = (i + 1) & (MEMO - 1)) {
    if (memo[i] == k) return 1;
    if (!memo[i]) {
      if (memo_used < MEMO / 2) {
        memo[i] = k;
        memo_used++;
      }
      return 0;
    }
  }
  return 0;
}
static int idx[HMAX], nl;
static uint64_t search_nodes;
static int dfs(uint64_t mask, const mstate_t* s) {
  if (mask == (nl >= 64 ? ~0ull : ((1ull << nl) - 1))) return 1;
  if (memo_seen(mask, s)) return 0;
  if (++search_nodes > 4000000) return -1;
  /* earliest return among not yet linearised operations */
  uint64_t minret = UINT64_MAX;
  for (int i = 0; i < nl; i++)
    if (!(mask >> i & 1) && H[idx[i]].ret < minret) minret = H[idx[i]].ret;
  for (int i = 0; i < nl; i++) {
    if (mask >> i & 1) continue;
    const hop_t* h = &H[idx[i]];
    if (h->inv > minret) continue; /* some other pending operation returned before this one was invoked */
    mstate_t t = *s;
    if (!apply(h, &t)) continue;
    int r = dfs(mask | (1ull << i), &t);
    if (r) return r;
  }
  return 0;
}
static const char* opname(int op) {
  switch (op) {
    case OP_PUSH: return "push";
    case OP_POP: return "pop";
    case OP_TRYPUSH: return "trypush";
    case OP_FLUSH_LIFO: return "flush_lifo";
    case OP_FLUSH_FIFO: return "flush_fifo";
  }
  return "?";
}
int hist_check(char* msg, size_t msglen) {
  nl = 0;
  for (int i = 0; i < nh; i++)
    if (H[i].live) {
      if (!H[i].done) {
        snprintf(msg, msglen, "operation %d (%s) never returned", i, opname(H[i].op));
        return -1;
      }
      idx[nl++] = i;
    }
  for (int a = 0; a < nl; a++) {
    hop_t* x = &H[idx[a]];
    x->overlaps_push = x->overlaps_any = 0;
    for (int b = 0; b < nl; b++) {
      if (a == b) continue;
      const hop_t* y = &H[idx[b]];
      if (y->inv < x->ret && y->ret > x->inv) {
        x->overlaps_any = 1;
        if (y->op == OP_PUSH || y->op == OP_TRYPUSH) x->overlaps_push = 1;
      }
    }
  }
  memset(memo, 0, sizeof memo);
  memo_used = 0;
  search_nodes = 0;
  mstate_t s0;
  s0.n = 0;
  int r = dfs(0, &s0);
  sim_probe("lin_search_nodes", search_nodes);
  if (r == 1) return 0;
  size_t k = 0;
  k += snprintf(msg + k, msglen - k, r < 0 ? "linearizability search exhausted its node budget; history: " : "no linearization exists; history (thread:op(arg)->res@[inv,ret]): ");
  for (int a = 0; a < nl && k + 60 < msglen; a++) {
    const hop_t* h = &H[idx[a]];
    k += snprintf(msg + k, msglen - k, "t%d:%s(%ld)->%ld@[%lu,%lu] ", h->thread, opname(h->op), h->arg, h->res, (unsigned long)h->inv, (unsigned long)h->ret);
  }
  return r < 0 ? -2 : -1;
}
