/* fibersim core: PRNG streams, allocator with shadow, baton scheduler, simulated
 * clock, TSan-ABI entry points, fiber ghosts, result reporting, batch main.
 * NOT instrumented.  Must never call a libc function that libfiber interposes
 * (read/write/close/usleep/...): raw syscalls only. */
#include "simint.h"

#include <execinfo.h>
#include <fcntl.h>
#include <linux/futex.h>
#include <poll.h>
#include <pthread.h>
#include <sched.h>
#include <signal.h>
#include <stdlib.h>
#include <sys/mman.h>
#include <sys/personality.h>
#include <sys/wait.h>
#include <time.h>

/* ------------------------------------------------------------------ */
/* raw I/O                                                            */
/* ------------------------------------------------------------------ */
int trace_on;
static int result_fd = 1;
void rawlog(const char* fmt, ...) {
  char b[1024];
  va_list ap;
  va_start(ap, fmt);
  int n = vsnprintf(b, sizeof b, fmt, ap);
  va_end(ap);
  if (n > (int)sizeof b) n = sizeof b;
  syscall(SYS_write, 2, b, n);
}
static void rawwrite(int fd, const char* b, size_t n) {
  while (n) {
    long r = syscall(SYS_write, fd, b, n);
    if (r <= 0) {
      if (r < 0 && errno == EINTR) continue;
      return;
    }
    b += r;
    n -= r;
  }
}

/* ------------------------------------------------------------------ */
/* PRNG streams                                                       */
/* ------------------------------------------------------------------ */
typedef struct {
  uint64_t s[4];
} rng_t;
static rng_t R_sched, R_fault, R_wl;
static inline uint64_t rotl(uint64_t x, int k) { return (x << k) | (x >> (64 - k)); }
static inline uint64_t rng_next(rng_t* r) {
  uint64_t* s = r->s;
  const uint64_t res = rotl(s[1] * 5, 7) * 9, t = s[1] << 17;
  s[2] ^= s[0];
  s[3] ^= s[1];
  s[1] ^= s[2];
  s[0] ^= s[3];
  s[2] ^= t;
  s[3] = rotl(s[3], 45);
  return res;
}
static void rng_seed(rng_t* r, uint64_t seed, uint64_t stream) {
  uint64_t x = seed * 0x9e3779b97f4a7c15ull + stream * 0xd1b54a32d192ed03ull + 0x2545F4914F6CDD1Dull;
  for (int i = 0; i < 4; i++) {
    x += 0x9e3779b97f4a7c15ull;
    uint64_t z = x;
    z = (z ^ (z >> 30)) * 0xbf58476d1ce4e5b9ull;
    z = (z ^ (z >> 27)) * 0x94d049bb133111ebull;
    r->s[i] = z ^ (z >> 31);
  }
  for (int i = 0; i < 8; i++) rng_next(r);
}
uint64_t rnd_fault(void) { return rng_next(&R_fault); }

/* ------------------------------------------------------------------ */
/* run state                                                          */
/* ------------------------------------------------------------------ */
thr_t T[MAXT];
int nthr;
__thread int me = -1;
int sim_active;
uint64_t now_ns, g_steps, cost_ns = 1000;
int fiber_mode;
unsigned fault_mask;
static uint64_t busy_steps, last_progress_busy, last_progress_ns, idle_since_ns;
static uint64_t max_steps = 5000000, stuck_busy = 1000000, quiet_ns = 40 * TICK_NS, max_sim_ns = 120000000000ull;
static uint32_t pinv = 50;
static unsigned boost_mask;
static int preempt_off;
static uint64_t thash = 1469598103934665603ull;
void th(uint64_t v) { thash = (thash ^ v) * 1099511628211ull; }
static uint64_t run_seed, sched_seed;
static int tier_thorough;
static int nontrivial;
static char describe_buf[900];
static char scenario_buf[64];
static uint64_t n_preempt, n_forced, n_handoff, n_idlejump, n_fair;
static void tso_flush_me(void);
static void tso_maybe_flush(void);
/* reach measurement (bin/reach): with SIM_COV=<file> every compiler hook marks its call site in a byte map
 * shared by all runs of the batch; off by default, no effect on any decision */
static uint8_t* covmap;
static uintptr_t cov_base, cov_size;
extern char __executable_start, etext;
#define COV()                                                                  \
  do {                                                                         \
    if (covmap) {                                                              \
      uintptr_t o_ = (uintptr_t)__builtin_return_address(0) - cov_base;        \
      if (o_ < cov_size) covmap[o_] = 1;                                       \
    }                                                                          \
  } while (0)
static void tso_commit_pending(void);
static int tso_plain_store(const void* a, size_t n);
static int n_stalled;
static uint64_t n_foreign_mgr, n_tso_buffered, n_tso_forwarded;
static uint64_t n_tso_plain;
static int amp_target = -1;
/* PCT (probabilistic concurrency testing) schedules: strict thread priorities, d-1 random priority change
 * points; complements uniform random preemption for bugs that need few, precisely placed switches */
static int pct_on, pct_low = 0;
static int pct_prio[MAXT];
static uint64_t pct_change[4];
static int pct_nchange;
static uint64_t max_quiet_busy, max_quiet_ns_seen;

/* named probes */
#define MAXPROBE 48
static struct {
  const char* name;
  uint64_t v;
} probes[MAXPROBE];
static int nprobes;
void sim_probe(const char* name, uint64_t add) {
  for (int i = 0; i < nprobes; i++)
    if (probes[i].name == name || !strcmp(probes[i].name, name)) {
      probes[i].v += add;
      return;
    }
  if (nprobes < MAXPROBE) {
    probes[nprobes].name = name;
    probes[nprobes].v = add;
    nprobes++;
  }
}
static uint64_t fault_fired[F_NKINDS];
static const char* const fault_names[F_NKINDS] = {"short_io",     "spurious_eagain", "delayed_report", "epoll_eintr", "thread_stall",
                                                  "connect_slow", "connect_fail",    "peer_reset",     "alloc_fail",  "epoll_fewer", "tso_flush"};
uint64_t simk_fault_count(int kind) { return fault_fired[kind]; }

/* ------------------------------------------------------------------ */
/* recorded decisions: choices, sched, faults                         */
/* ------------------------------------------------------------------ */
#define MAXCH 4096
static int ch_rec[MAXCH], ch_lo[MAXCH], ch_hi[MAXCH];
static int nch;
static int ch_in[MAXCH], nch_in, ch_replay; /* replayed choices */
typedef struct {
  uint32_t tid;
  uint32_t to;
  uint64_t tstep;
} dec_t;
#define MAXDEC (1 << 20)
static dec_t* dec_rec;
static size_t ndec;
static dec_t* dec_in[MAXT];
static size_t ndec_in[MAXT], dec_cur[MAXT];
static int sched_replay;
typedef struct {
  uint32_t kind;
  uint64_t idx;
  uint64_t val;
} fdec_t;
#define MAXFDEC 65536
static fdec_t* fdec_rec;
static size_t nfdec;
static fdec_t* fdec_in;
static size_t nfdec_in;
static int fault_replay;
static uint64_t fault_opp[F_NKINDS];

static uint64_t shape_hash(void) {
  uint64_t h = 1469598103934665603ull;
  for (int i = 0; i < nch; i++) h = (h ^ (uint64_t)(uint32_t)ch_rec[i]) * 1099511628211ull;
  return h;
}

int wl_int(int lo, int hi) {
  int v;
  if (hi < lo) hi = lo;
  if (ch_replay) {
    v = nch < nch_in ? ch_in[nch] : lo;
    if (v < lo) v = lo;
    if (v > hi) v = hi;
  } else {
    v = lo + (int)(rng_next(&R_wl) % (uint64_t)(hi - lo + 1));
  }
  if (nch < MAXCH) {
    ch_rec[nch] = v;
    ch_lo[nch] = lo;
    ch_hi[nch] = hi;
    nch++;
  }
  return v;
}
int wl_pick(int n) { return wl_int(0, n - 1); }
int wl_pct(int pct) { return wl_int(0, 99) >= 100 - pct; } /* lo (=0) is the "no" answer: shrinks towards no */
int sim_tier_thorough(void) { return tier_thorough; }

/* ---- the runtime's own stack ----
 * Generate mode draws from PRNGs where replay mode looks decisions up, so the two leave different garbage in
 * the dead frames below the caller. Code with a genuine defect that reads such a dead frame (a list node on a
 * frame that has returned) would then behave differently when its replay file is run. The mode-dependent
 * parts of the runtime therefore run on a stack of the kernel thread's own; the code under test only ever
 * sees the fixed frames of the hook itself below its stack pointer. */
static __thread char* rt_stack_top;
static __thread int on_rt_stack;
static void rt_stack_install(void) {
  size_t sz = 1 << 17;
  char* st = mmap(0, sz, PROT_READ | PROT_WRITE, MAP_PRIVATE | MAP_ANONYMOUS, -1, 0);
  if (st != MAP_FAILED) rt_stack_top = st + sz - 64;
}
static __attribute__((noinline)) uint64_t rt_call(void* fn, uint64_t a, uint64_t b, uint64_t c) {
  if (!rt_stack_top || on_rt_stack) return ((uint64_t(*)(uint64_t, uint64_t, uint64_t))fn)(a, b, c);
  on_rt_stack = 1;
  register uint64_t ret __asm__("rax");
  register uint64_t ra __asm__("rdi") = a;
  register uint64_t rb __asm__("rsi") = b;
  register uint64_t rc __asm__("rdx") = c;
  __asm__ volatile(
      "movq %%rsp, %%r12\n\t"
      "movq %[top], %%rsp\n\t"
      "callq *%[fn]\n\t"
      "movq %%r12, %%rsp\n\t"
      : "=r"(ret), "+r"(ra), "+r"(rb), "+r"(rc)
      : [top] "r"(rt_stack_top), [fn] "r"(fn)
      : "r12", "rcx", "r8", "r9", "r10", "r11", "memory", "cc", "xmm0", "xmm1", "xmm2", "xmm3", "xmm4", "xmm5", "xmm6", "xmm7", "xmm8", "xmm9",
        "xmm10", "xmm11", "xmm12", "xmm13", "xmm14", "xmm15");
  on_rt_stack = 0;
  return ret;
}

static uint64_t fault_draw_inner(uint64_t kind_, uint64_t inv_prob_, uint64_t maxv) {
  const int kind = (int)kind_;
  const uint32_t inv_prob = (uint32_t)inv_prob_;
  if (!(fault_mask & FBIT(kind))) return 0;
  uint64_t idx = fault_opp[kind]++;
  uint64_t v = 0;
  if (fault_replay) {
    for (size_t i = 0; i < nfdec_in; i++)
      if (fdec_in[i].kind == (uint32_t)kind && fdec_in[i].idx == idx) {
        v = fdec_in[i].val;
        if (v > maxv) v = maxv;
        if (!v) v = 1;
        break;
      }
  } else {
    uint64_t r = rng_next(&R_fault);
    if (r % inv_prob == 0) v = 1 + (r >> 20) % maxv;
  }
  if (v) {
    fault_fired[kind]++;
    if (nfdec < MAXFDEC) {
      fdec_rec[nfdec].kind = kind;
      fdec_rec[nfdec].idx = idx;
      fdec_rec[nfdec].val = v;
      nfdec++;
    }
    th(0xFA017000ull + kind * 131 + v);
    TR("[%lu] fault %s idx=%lu val=%lu thread=%d\n", g_steps, fault_names[kind], idx, v, me);
  }
  return v;
}
uint64_t fault_draw(int kind, uint32_t inv_prob, uint64_t maxv) { return rt_call((void*)fault_draw_inner, (uint64_t)kind, inv_prob, maxv); }

/* ------------------------------------------------------------------ */
/* allocator: bump arena + shadow (1 byte per 8), redzones, poison     */
/* ------------------------------------------------------------------ */
#define ARENA_BASE 0x600000000000ull
#define ARENA_SIZE (1ull << 32)
#define SHADOW_BASE 0x610000000000ull
#define ZONE_LO (ARENA_BASE - (1ull << 38))
#define ZONE_HI (ARENA_BASE + (1ull << 38))
#define RZ 64
#define ISOLATE_GAP (1ull << 20)
enum { SH_NONE = 0, SH_VALID = 1, SH_RZ = 2, SH_FREED = 3 };
typedef struct {
  uint64_t size;
  uint64_t magic;
} ahdr_t;
#define AHELD 0xA110C8EDA110C8EEull /* sim_mem_hold: free() is recorded but the block stays readable */
#define AMAGIC 0xA110C8EDA110C8EDull
#define AFREED 0xF4EEDF4EEDF4EED0ull
static char* arena;
static uint8_t* shadow;
static size_t arena_off;
static atomic_flag alock = ATOMIC_FLAG_INIT;
static size_t live_blocks;
static long alloc_count, alloc_fail_nth;
static void a_lock(void) {
  while (atomic_flag_test_and_set_explicit(&alock, memory_order_acquire)) {
  }
}
static void a_unlock(void) { atomic_flag_clear_explicit(&alock, memory_order_release); }
static void arena_init(void) {
  arena = mmap((void*)ARENA_BASE, ARENA_SIZE, PROT_READ | PROT_WRITE, MAP_PRIVATE | MAP_ANONYMOUS | MAP_NORESERVE | MAP_FIXED_NOREPLACE, -1, 0);
  shadow = mmap((void*)SHADOW_BASE, ARENA_SIZE / 8, PROT_READ | PROT_WRITE, MAP_PRIVATE | MAP_ANONYMOUS | MAP_NORESERVE | MAP_FIXED_NOREPLACE, -1, 0);
  if (arena != (char*)ARENA_BASE || shadow != (uint8_t*)SHADOW_BASE) {
    rawlog("fibersim: cannot map arena\n");
    syscall(SYS_exit_group, 99);
  }
}
int alloc_in_arena(const void* p) { return (uint64_t)p >= ARENA_BASE && (uint64_t)p < ARENA_BASE + ARENA_SIZE; }
static size_t arena_off_at_run_start; /* (the batch process allocates between runs: nothing in a run may depend on absolute addresses) */
static void* recent_blocks[256]; /* small blocks handed out lately (stale contents of recycled memory, below) */
static unsigned n_recent_blocks;
static void* a_alloc(size_t n, size_t align, int isolate, int countable) {
  if (align < 16) align = 16;
  a_lock();
  if (!arena) arena_init();
  if (countable) {
    alloc_count++;
    if (alloc_fail_nth && --alloc_fail_nth == 0) {
      a_unlock();
      fault_fired[F_ALLOC_FAIL]++;
      errno = ENOMEM;
      return NULL;
    }
  }
  size_t p = arena_off + (isolate ? ISOLATE_GAP : 0) + RZ;
  p = (p + align - 1) & ~(align - 1);
  size_t n8 = (n + 7) & ~7ull;
  size_t end = p + n8 + RZ + (isolate ? ISOLATE_GAP : 0);
  end = (end + 15) & ~15ull;
  if (end > (3ull << 30)) {
    a_unlock();
    rawlog("fibersim: arena exhausted\n");
    syscall(SYS_exit_group, 98);
  }
  arena_off = end;
  live_blocks++;
  memset(shadow + (p - RZ) / 8, SH_RZ, RZ / 8);
  memset(shadow + p / 8, SH_VALID, n8 / 8);
  memset(shadow + (p + n8) / 8, SH_RZ, RZ / 8);
  ahdr_t* h = (ahdr_t*)(arena + p) - 1;
  h->size = n;
  h->magic = AMAGIC;
  if (n <= 4096) recent_blocks[n_recent_blocks++ & 255] = arena + p;
  a_unlock();
  return arena + p;
}
/* malloc'ed (not calloc'ed) memory has indeterminate contents: during a run it is filled with a pattern that
 * depends on the run's seed (zero in a quarter of the runs), so that code relying on fresh heap memory being
 * zero - which real allocators only deliver by accident - shows */
static void* a_alloc_junk(size_t n, size_t align) {
  void* p = a_alloc(n, align, 0, 1);
  if (p && sim_active) {
    static const unsigned char pat[8] = {0x00, 0xA5, 0xA5, 0x5A, 0xFF, 0xA5, 0x01, 0x00};
    const unsigned char b = pat[(run_seed * 0x9E3779B97F4A7C15ull) >> 61];
    if (b == 0x5A) {
      /* one run in eight: what a recycled chunk really holds - pointers to objects of the program that are
       * still in use (here: addresses of small blocks handed out lately), not a recognisable pattern */
      a_lock();
      const unsigned cnt = n_recent_blocks < 256 ? n_recent_blocks : 256;
      uint64_t x = run_seed ^ ((uint64_t)((char*)p - arena - arena_off_at_run_start) * 0x9E3779B97F4A7C15ull);
      for (size_t w = 0; cnt && w + 8 <= n; w += 8) {
        x = x * 6364136223846793005ull + 1442695040888963407ull;
        void* v = recent_blocks[(x >> 33) % cnt];
        memcpy((char*)p + w, &v, 8);
      }
      a_unlock();
    } else if (b)
      memset(p, b, n);
  }
  return p;
}
void* sim_internal_alloc(size_t n) { return a_alloc(n, 16, 0, 0); }
/* a block far away from the ordinary ones (upper part of the arena, > 2 GiB above its base): address
 * patterns for code that sorts or subtracts pointers */
static size_t arena_high_off = 3ull << 30;
void* sim_alloc_high(size_t n) {
  a_lock();
  if (!arena) arena_init();
  size_t p = (arena_high_off + RZ + 15) & ~15ull;
  size_t n8 = (n + 7) & ~7ull;
  arena_high_off = p + n8 + RZ;
  live_blocks++;
  memset(shadow + (p - RZ) / 8, SH_RZ, RZ / 8);
  memset(shadow + p / 8, SH_VALID, n8 / 8);
  memset(shadow + (p + n8) / 8, SH_RZ, RZ / 8);
  ahdr_t* h = (ahdr_t*)(arena + p) - 1;
  h->size = n;
  h->magic = AMAGIC;
  if (n <= 4096) recent_blocks[n_recent_blocks++ & 255] = arena + p;
  a_unlock();
  return arena + p;
}
void* malloc(size_t n) { return a_alloc_junk(n, 16); }
void* calloc(size_t a, size_t b) {
  /* arena pages are fresh zero pages and never reused.  Arrays indexed by
   * descriptor number (libfiber allocates them with nmemb == rlim_max == 64)
   * are isolated between 1 MiB of unaddressable shadow. */
  return a_alloc(a * b, 16, a == 64 && sim_active, 1);
}
void free(void* p) {
  if (!p) return;
  if (!alloc_in_arena(p)) return;
  if (sim_active) tso_flush_me(); /* the freeing thread's delayed stores must not land in the poisoned block */
  ahdr_t* h = (ahdr_t*)p - 1;
  if (h->magic == AFREED) sim_violation("MEM-double-free", "block %p size %lu freed twice", p, (unsigned long)h->size);
  if (h->magic == AHELD) { /* logically freed exactly once; contents and shadow left alone */
    if (sim_active && me >= 0) ghost_on_free(p, h->size);
    a_lock();
    h->magic = AFREED;
    live_blocks--;
    a_unlock();
    return;
  }
  if (h->magic != AMAGIC) sim_violation("MEM-bad-free", "free of non-block %p", p);
  if (sim_active && me >= 0) ghost_on_free(p, h->size);
  a_lock();
  h->magic = AFREED;
  live_blocks--;
  size_t n8 = (h->size + 7) & ~7ull;
  memset(p, 0xFB, n8);
  memset(shadow + ((char*)p - arena) / 8, SH_FREED, n8 / 8);
  a_unlock();
}
void* realloc(void* p, size_t n) {
  if (!p) return malloc(n);
  if (sim_active) tso_flush_me();
  ahdr_t* h = (ahdr_t*)p - 1;
  void* q = malloc(n);
  if (q) {
    memcpy(q, p, h->size < n ? h->size : n);
    free(p);
  }
  return q;
}
int posix_memalign(void** out, size_t al, size_t n) {
  *out = a_alloc_junk(n, al);
  return *out ? 0 : ENOMEM;
}
void* aligned_alloc(size_t al, size_t n) { return a_alloc_junk(n, al); }
void* memalign(size_t al, size_t n) { return a_alloc_junk(n, al); }
size_t malloc_usable_size(void* p) { return p ? ((ahdr_t*)p - 1)->size : 0; }
void sim_mem_hold(void* p) {
  ahdr_t* h = (ahdr_t*)p - 1;
  if (alloc_in_arena(p) && h->magic == AMAGIC) h->magic = AHELD;
}
int sim_mem_is_live(const void* p) { return alloc_in_arena(p) && shadow[((const char*)p - arena) / 8] == SH_VALID; }
int sim_mem_is_freed(const void* p) { return alloc_in_arena(p) && shadow[((const char*)p - arena) / 8] == SH_FREED; }
size_t sim_live_blocks(void) { return live_blocks; }
void sim_alloc_fail_at(long nth) { alloc_fail_nth = nth; }
long sim_alloc_count(void) { return alloc_count; }

void alloc_check(const void* addr, size_t size) {
  uint64_t a = (uint64_t)addr;
  if ((a >> 40) == 0xFBFBFB)
    sim_violation("MEM-poison-pointer", "dereference of %p: a pointer value read from freed or dead (poisoned) memory", addr);
  if ((a >> 40) == 0xA5A5A5)
    sim_violation("MEM-uninitialised-pointer", "dereference of %p: a pointer value read from malloc'ed memory that was never written", addr);
  if (a - ZONE_LO >= ZONE_HI - ZONE_LO) return;
  if (a < ARENA_BASE || a + size > ARENA_BASE + ARENA_SIZE) sim_violation("MEM-wild-access", "access of %zu bytes at %p, far outside any block", size, addr);
  uint8_t s0 = shadow[(a - ARENA_BASE) >> 3], s1 = shadow[(a + size - 1 - ARENA_BASE) >> 3];
  if (s0 == SH_VALID && s1 == SH_VALID) return;
  uint8_t s = s0 != SH_VALID ? s0 : s1;
  if (s == SH_FREED) {
    /* find the block: walk back over freed granules to the red zone that precedes it */
    uint64_t g = (a - ARENA_BASE) >> 3;
    while (g > 0 && shadow[g - 1] == SH_FREED) g--;
    ahdr_t* h = (ahdr_t*)(arena + (g << 3)) - 1;
    sim_violation("MEM-use-after-free", "access of %zu bytes at offset %lu of a freed block of %lu bytes (%p)", size, (unsigned long)(a - ARENA_BASE - (g << 3)),
                  (unsigned long)h->size, addr);
  }
  else if (s == SH_RZ)
    sim_violation("MEM-out-of-bounds", "access of %zu bytes at %p in a red zone", size, addr);
  else
    sim_violation("MEM-wild-access", "access of %zu bytes at %p in never-allocated arena memory", size, addr);
}

/* ------------------------------------------------------------------ */
/* results                                                            */
/* ------------------------------------------------------------------ */
static const char* oracle_property(const char* oracle) {
  static char p[8];
  if (oracle && oracle[0] == 'C' && oracle[1] >= '0' && oracle[1] <= '9' && oracle[2] >= '0' && oracle[2] <= '9' && oracle[3] == '-') {
    memcpy(p, oracle, 3);
    p[3] = 0;
    return p;
  }
  return H_PROPERTY;
}
static void json_escape(char* out, size_t n, const char* in) {
  size_t k = 0;
  for (; *in && k + 8 < n; in++) {
    unsigned char c = *in;
    if (c == '"' || c == '\\') {
      out[k++] = '\\';
      out[k++] = c;
    } else if (c < 32) {
      out[k++] = ' ';
    } else
      out[k++] = c;
  }
  out[k] = 0;
}
extern void fiber_manager_all_stats(void* out) __attribute__((weak));
static int finishing;
static int dump_always, compact_ok;
static void ghost_live_summary(char* out, size_t n);
void finish(int code, const char* verdict, const char* oracle, const char* detail) {
  if (__atomic_exchange_n(&finishing, 1, __ATOMIC_SEQ_CST)) {
    for (;;) syscall(SYS_exit_group, code);
  }
  sim_active = 0;
  static char stuck_detail[1100];
  if (oracle && !strncmp(oracle, "STUCK-", 6) && fiber_mode) { /* name the fibers that have not finished */
    size_t k = snprintf(stuck_detail, sizeof stuck_detail, "%s; unfinished fibers: ", detail ? detail : "");
    ghost_live_summary(stuck_detail + k, sizeof stuck_detail - k);
    detail = stuck_detail;
  }
  if (fiber_mode && fiber_manager_all_stats) {
    uint64_t st[11];
    fiber_manager_all_stats(st);
    static const char* const sn[11] = {"lib_yield",          "lib_steal",          "lib_failed_steal", "lib_spin",       "lib_signal_spin", "lib_multi_signal_spin",
                                       "lib_wake_mpsc_spin", "lib_wake_mpmc_spin", "lib_poll",         "lib_event_wait", "lib_lock_contention"};
    for (int i = 0; i < 11; i++) sim_probe(sn[i], st[i]);
  }
  if (n_foreign_mgr) sim_probe("foreign_manager_access", n_foreign_mgr);
  if (n_tso_buffered) sim_probe("tso_stores_buffered", n_tso_buffered);
  if (n_tso_forwarded) sim_probe("tso_loads_forwarded", n_tso_forwarded);
  if (n_tso_plain) sim_probe("tso_plain_stores_buffered", n_tso_plain);
  if (compact_ok && code == 0) {
    char* b = sim_internal_alloc(8192);
    size_t k = snprintf(b, 8192, "ok %lu %lu %lu %lu %016lx %016lx %d %d %lu %lu %lu %lu %lu %lu|", run_seed, g_steps, busy_steps, now_ns, thash,
                        shape_hash(), nontrivial, nthr, n_preempt, n_forced + n_fair, sim_fiber_switches(), sim_migrations(), max_quiet_busy,
                        max_quiet_ns_seen);
    for (int i = 0; i < F_NKINDS; i++)
      if (fault_fired[i]) k += snprintf(b + k, 8192 - k, "%s=%lu,", fault_names[i], fault_fired[i]);
    k += snprintf(b + k, 8192 - k, "|");
    for (int i = 0; i < nprobes && k < 7000; i++)
      if (probes[i].v) k += snprintf(b + k, 8192 - k, "%s=%lu,", probes[i].name, probes[i].v);
    k += snprintf(b + k, 8192 - k, "\n");
    rawwrite(result_fd, b, k);
    for (;;) syscall(SYS_exit_group, code);
  }
  size_t cap = 1 << 16;
  int dump = code != 0 || dump_always;
  if (dump) cap += nch * 12 + ndec * 40 + nfdec * 48;
  char* b = sim_internal_alloc(cap);
  size_t k = 0;
  char esc[1200], esc2[1000];
  json_escape(esc, sizeof esc, detail ? detail : "");
  json_escape(esc2, sizeof esc2, describe_buf);
  k += snprintf(b + k, cap - k,
                "{\"seed\":%lu,\"verdict\":\"%s\",\"oracle\":\"%s\",\"property\":\"%s\",\"scenario\":\"%s\",\"detail\":\"%s\",\"harness\":\"%s\","
                "\"steps\":%lu,\"busy\":%lu,\"sim_ns\":%lu,\"hash\":\"%016lx\",\"shape\":\"%016lx\",\"nontrivial\":%d,\"threads\":%d,"
                "\"preempt\":%lu,\"forced\":%lu,\"handoff\":%lu,\"idlejump\":%lu,\"fair\":%lu,\"fswitch\":%lu,\"migr\":%lu,"
                "\"maxq_busy\":%lu,\"maxq_ns\":%lu,\"describe\":\"%s\"",
                run_seed, verdict, oracle ? oracle : "", oracle ? oracle_property(oracle) : H_PROPERTY, scenario_buf, esc, H_NAME, g_steps,
                busy_steps, now_ns, thash, shape_hash(), nontrivial, nthr, n_preempt, n_forced, n_handoff, n_idlejump, n_fair, sim_fiber_switches(),
                sim_migrations(), max_quiet_busy, max_quiet_ns_seen, esc2);
  k += snprintf(b + k, cap - k, ",\"faults\":{");
  for (int i = 0, f = 1; i < F_NKINDS; i++)
    if (fault_fired[i]) {
      k += snprintf(b + k, cap - k, "%s\"%s\":%lu", f ? "" : ",", fault_names[i], fault_fired[i]);
      f = 0;
    }
  k += snprintf(b + k, cap - k, "},\"probes\":{");
  for (int i = 0; i < nprobes; i++) k += snprintf(b + k, cap - k, "%s\"%s\":%lu", i ? "," : "", probes[i].name, probes[i].v);
  k += snprintf(b + k, cap - k, "}");
  if (dump) {
    k += snprintf(b + k, cap - k, ",\"choices\":[");
    for (int i = 0; i < nch; i++) k += snprintf(b + k, cap - k, "%s%d", i ? "," : "", ch_rec[i]);
    k += snprintf(b + k, cap - k, "],\"sched\":[");
    for (size_t i = 0; i < ndec; i++) k += snprintf(b + k, cap - k, "%s[%u,%lu,%u]", i ? "," : "", dec_rec[i].tid, dec_rec[i].tstep, dec_rec[i].to);
    k += snprintf(b + k, cap - k, "],\"faultdec\":[");
    for (size_t i = 0; i < nfdec; i++) k += snprintf(b + k, cap - k, "%s[%u,%lu,%lu]", i ? "," : "", fdec_rec[i].kind, fdec_rec[i].idx, fdec_rec[i].val);
    k += snprintf(b + k, cap - k, "]");
  }
  k += snprintf(b + k, cap - k, "}\n");
  rawwrite(result_fd, b, k);
  for (;;) syscall(SYS_exit_group, code);
}
void sim_violation(const char* oracle, const char* fmt, ...) {
  char d[800];
  va_list ap;
  va_start(ap, fmt);
  vsnprintf(d, sizeof d, fmt, ap);
  va_end(ap);
  TR("VIOLATION %s: %s\n", oracle, d);
  if (getenv("SIM_BT")) { /* diagnostics only: symbolise with addr2line -e build/h_x */
    void* bt[24];
    int n = backtrace(bt, 24);
    for (int i = 0; i < n; i++) rawlog("  bt[%d] %p\n", i, bt[i]);
  }
  finish(10, "violation", oracle, d);
}
void sim_finish_ok(void) { finish(0, "ok", NULL, ""); }
void sim_nontrivial(void) { nontrivial = 1; }
void sim_describe(const char* fmt, ...) {
  size_t k = strlen(describe_buf);
  if (k + 2 >= sizeof describe_buf) return;
  va_list ap;
  va_start(ap, fmt);
  vsnprintf(describe_buf + k, sizeof describe_buf - k, fmt, ap);
  va_end(ap);
}
void sim_trace(const char* fmt, ...) {
  if (!trace_on) return;
  char b[600];
  va_list ap;
  va_start(ap, fmt);
  vsnprintf(b, sizeof b, fmt, ap);
  va_end(ap);
  rawlog("[%lu] t%d %s\n", g_steps, me, b);
}
void sim_scenario(const char* tag) {
  strncpy(scenario_buf, tag ? tag : "", sizeof scenario_buf - 1);
  scenario_buf[sizeof scenario_buf - 1] = 0;
}

/* ------------------------------------------------------------------ */
/* scheduler                                                          */
/* ------------------------------------------------------------------ */
static void fwait(_Atomic int* a) {
  while (atomic_load(a) == 0) syscall(SYS_futex, a, FUTEX_WAIT_PRIVATE, 0, 0, 0, 0);
  atomic_store(a, 0);
}
static void fwake(_Atomic int* a) {
  atomic_store(a, 1);
  syscall(SYS_futex, a, FUTEX_WAKE_PRIVATE, 1, 0, 0, 0);
}
static int others_all_blocked(int self);
/* a held thread is not given the baton for a while (as if the OS had preempted it): set when one of its
 * fibers was made runnable before its context switch completed, so that the race can actually play out */
static uint64_t hold_until[MAXT];
static uint64_t n_wakeups_seen, n_saving_wakeups;
static __thread int arm_rmw, arm_steps, arm_fire; /* directed stalls, see sim_stall_after_rmw */
static int runnable(int i) {
  if (hold_until[i] > g_steps && T[i].st == ST_RUN) return 0;
  switch (T[i].st) {
    case ST_RUN:
      return 1;
    case ST_EPOLL:
      return now_ns >= T[i].deadline || k_epoll_ready_for(i);
    case ST_SLEEP:
      return now_ns >= T[i].deadline;
    case ST_WAITIDLE:
      return others_all_blocked(i);
    case ST_JOIN:
      return T[T[i].join_target].st == ST_EXIT;
    default:
      return 0;
  }
}
static int others_all_blocked(int self) {
  for (int i = 0; i < nthr; i++) {
    if (i == self) continue;
    if (T[i].st == ST_EXIT || T[i].st == ST_NONE) continue;
    if (T[i].st == ST_WAITIDLE) continue;
    if (T[i].st != ST_EPOLL) return 0; /* running, stalled or joining: not idle */
    /* a thread parked in epoll_wait is idle even if the periodic timer is already due again */
  }
  return 1;
}
static uint64_t wake_time(int i) {
  switch (T[i].st) {
    case ST_EPOLL: {
      uint64_t d = T[i].deadline, e = k_next_event_time();
      return e < d ? e : d;
    }
    case ST_SLEEP:
      return T[i].deadline;
    default:
      return UINT64_MAX;
  }
}
static void record_dec(int to) {
  if (ndec < MAXDEC) {
    dec_rec[ndec].tid = me;
    dec_rec[ndec].tstep = T[me].tstep;
    dec_rec[ndec].to = to;
    ndec++;
  }
}
/* replay lookup: decision recorded for (me, tstep)?  returns target or -1 */
static int replay_lookup(void) {
  size_t* c = &dec_cur[me];
  const uint64_t ts = T[me].tstep;
  while (*c < ndec_in[me] && dec_in[me][*c].tstep < ts) (*c)++;
  if (*c < ndec_in[me] && dec_in[me][*c].tstep == ts) return dec_in[me][(*c)++].to;
  return -1;
}
static void handoff(int to) {
  if (to == me) return;
  n_handoff++;
  th(g_steps * 31 + me * 7 + to);
  TR("[%lu] t%d -> t%d (tstep %lu)\n", g_steps, me, to, T[me].tstep);
  T[to].last_run = g_steps;
  T[me].last_run = g_steps;
  fwake(&T[to].go);
  fwait(&T[me].go);
}
static int pct_best(int exclude_self) {
  int best = -1;
  for (int i = 0; i < nthr; i++)
    if ((!exclude_self || i != me) && runnable(i) && (best < 0 || pct_prio[i] > pct_prio[best])) best = i;
  return best;
}
static int pick_random(int exclude_self) {
  if (pct_on) return pct_best(exclude_self);
  int c[MAXT], n = 0;
  for (int i = 0; i < nthr; i++)
    if ((!exclude_self || i != me) && runnable(i)) c[n++] = i;
  if (!n) return -1;
  return c[rng_next(&R_sched) % n];
}
static int pick_rr(int exclude_self) {
  for (int k = 1; k <= nthr; k++) {
    int i = (me + k) % nthr;
    if (i == me && exclude_self) continue;
    if (runnable(i)) return i;
  }
  return -1;
}
/* choose the next thread at a point where the current one cannot or must not continue */
static int choose_next(int exclude_self) {
  int o;
  if (sched_replay) {
    o = replay_lookup();
    if (o >= 0 && o < nthr && runnable(o) && !(exclude_self && o == me)) {
      record_dec(o);
      return o;
    }
    o = pick_rr(exclude_self);
    return o;
  }
  o = pick_random(exclude_self);
  if (o >= 0) record_dec(o);
  return o;
}
static void check_idle_stuck(void) {
  if (!fiber_mode || n_stalled) return;
  if (!ghost_all_maint()) return;
  uint64_t since = idle_since_ns > last_progress_ns ? idle_since_ns : last_progress_ns;
  if (now_ns > since && now_ns - since > max_quiet_ns_seen) max_quiet_ns_seen = now_ns - since;
  if (now_ns > since && now_ns - since > quiet_ns)
    finish(11, "violation", "STUCK-idle", "every kernel thread idle and no harness operation completed within the quiet budget");
}
/* the calling thread has set its state to a blocked one; returns when it may continue */
static void block_me_inner(void);
void block_me(void) { rt_call((void*)block_me_inner, 0, 0, 0); }
static void block_me_inner(void) {
  tso_flush_me();
  T[me].tstep++;
  for (;;) {
    int any = 0;
    for (int i = 0; i < nthr; i++)
      if (runnable(i)) {
        any = 1;
        break;
      }
    if (!any) {
      int released = 0;
      for (int i = 0; i < nthr; i++)
        if (hold_until[i] > g_steps) {
          hold_until[i] = 0;
          released = 1;
        }
      if (released) continue;
      uint64_t t = UINT64_MAX;
      for (int i = 0; i < nthr; i++) {
        uint64_t w = wake_time(i);
        if (w < t) t = w;
      }
      if (t == UINT64_MAX) finish(12, "violation", "STUCK-deadlock", "no thread runnable and no timer pending");
      if (t > now_ns) {
        now_ns = t;
        n_idlejump++;
      } else
        now_ns += 1000; /* should not happen; guarantees progress of time */
      if (now_ns > max_sim_ns) finish(11, "violation", "STUCK-simtime", "simulated time budget exhausted");
      check_idle_stuck();
      continue;
    }
    int o = choose_next(0);
    if (o < 0) continue;
    if (o == me) return;
    handoff(o);
    if (runnable(me)) return;
  }
}
static void account_step(int kind) {
  g_steps++;
  T[me].tstep++;
  if (!preempt_off) now_ns += cost_ns;
  if (!T[me].in_maint && !n_stalled) { /* steps taken while some thread is in an injected stall are not charged */
    busy_steps++;
    if (busy_steps - last_progress_busy > max_quiet_busy) max_quiet_busy = busy_steps - last_progress_busy;
    if (busy_steps - last_progress_busy > stuck_busy)
      finish(11, "violation", "STUCK-busy", "no harness operation completed within the busy-step budget (livelock or starvation)");
  } else if ((g_steps & 255) == 0)
    check_idle_stuck();
  if (g_steps > max_steps) finish(11, "violation", "STUCK-budget", "scheduling-point budget exhausted");
  if (now_ns > max_sim_ns) finish(11, "violation", "STUCK-simtime", "simulated time budget exhausted");
  (void)kind;
}
static void sched_point_inner(int kind);
void sim_sched_point(int kind) {
  if (!sim_active || me < 0) return;
  tso_commit_pending();
  const int saved_errno = errno; /* the runtime's own system calls must not leak into the code under test */
  rt_call((void*)sched_point_inner, (uint64_t)kind, 0, 0);
  errno = saved_errno;
}
/* harness-directed slow thread: "this kernel thread is descheduled for a while right after its n-th atomic
 * read-modify-write from now" (part of the program, so it shrinks and replays like any other choice) */
void sim_stall_after_rmw(int nth, int steps) {
  arm_rmw = nth;
  arm_steps = steps;
  arm_fire = 0;
}
/* "this kernel thread is preempted right before its next double-word CAS and stays away until *release is set
 * (or max_steps have gone by)": lets a harness script the classic stale-snapshot interleaving of an ABA */
static __thread volatile int* hold_reached;
static __thread volatile int* hold_release;
static __thread int hold_max_steps;
void sim_hold_before_dwcas(volatile int* reached, volatile int* release, int max_steps) {
  hold_reached = reached;
  hold_release = release;
  hold_max_steps = max_steps;
}
/* "... right after its next successful read of the timer descriptor" (the kernel stub reports the read) */
static __thread int arm_timer_steps;
void sim_stall_after_timer_read(int steps) { arm_timer_steps = steps; }
void sim_internal_timer_was_read(void) {
  if (arm_timer_steps > 0) {
    arm_steps = arm_timer_steps;
    arm_timer_steps = 0;
    arm_fire = 1;
  }
}
static void sched_point_inner(int kind) {
  account_step(kind);
  tso_maybe_flush();
  if (hold_release && kind == K_DWCAS && !preempt_off) {
    volatile int* rel = hold_release;
    hold_release = NULL;
    if (hold_reached) *hold_reached = 1;
    const uint64_t until = g_steps + (uint64_t)hold_max_steps;
    TR("[%lu] t%d held before its double-word CAS\n", g_steps, me);
    n_stalled++;
    while (!*rel && g_steps < until) {
      T[me].st = ST_SLEEP;
      T[me].deadline = now_ns + 200 * cost_ns;
      block_me();
      T[me].st = ST_RUN;
    }
    n_stalled--;
    idle_since_ns = now_ns;
    TR("[%lu] t%d released (%s)\n", g_steps, me, *rel ? "flag" : "time-out");
    return;
  }
  if (arm_fire && !preempt_off) { /* the read-modify-write has executed: this is the next scheduling point after it */
    arm_fire = 0;
    n_stalled++;
    T[me].st = ST_SLEEP;
    T[me].deadline = now_ns + (uint64_t)arm_steps * cost_ns;
    TR("[%lu] t%d directed stall of %d steps\n", g_steps, me, arm_steps);
    block_me();
    T[me].st = ST_RUN;
    n_stalled--;
    idle_since_ns = now_ns;
    return;
  }
  if (arm_rmw && (kind == K_RMW || kind == K_DWCAS) && --arm_rmw == 0) arm_fire = 1;
  if (preempt_off) return;
  /* fairness bound */
  for (int i = 0; i < nthr; i++)
    if (i != me && T[i].last_run + 2000 < g_steps && runnable(i)) {
      n_fair++;
      /* under strict priorities the starved thread would be preempted again after one step: the thread
       * that monopolised the baton drops to the lowest priority (as a spinning thread does) */
      if (pct_on) pct_prio[me] = --pct_low;
      handoff(i);
      return;
    }
  /* injected stall of this kernel thread */
  if ((fault_mask & FBIT(F_STALL)) && kind != K_SPIN) {
    uint64_t v = fault_draw(F_STALL, 20000, 18);
    if (v) {
      uint64_t d = (1ull << v) * 1000; /* 2us .. 262ms, log-uniform ... */
      if (d > 20000 * cost_ns) d = 20000 * cost_ns; /* ... but at most 20000 scheduling points of the others' spinning */
      n_stalled++;                     /* injected stall time is not charged to the idle liveness budget */
      T[me].st = ST_SLEEP;
      T[me].deadline = now_ns + d;
      block_me();
      T[me].st = ST_RUN;
      n_stalled--;
      idle_since_ns = now_ns;
      return;
    }
  }
  if (hold_until[me] > g_steps) { /* this thread is being held: pointless if nobody else can run (same in both modes) */
    int any = 0;
    for (int i = 0; i < nthr; i++)
      if (i != me && runnable(i)) any = 1;
    if (!any) hold_until[me] = 0;
  }
  if (sched_replay) {
    int o = replay_lookup();
    if (o >= 0 && o < nthr && o != me && runnable(o)) {
      record_dec(o);
      n_preempt++;
      handoff(o);
    }
    return;
  }
  if (hold_until[me] > g_steps) { /* held: somebody else runs */
    int o = pick_random(1);
    if (o >= 0) {
      record_dec(o);
      n_preempt++;
      handoff(o);
      return;
    }
  }
  if (pct_on) {
    for (int c = 0; c < pct_nchange; c++)
      if (pct_change[c] == g_steps) pct_prio[me] = --pct_low; /* change point: the running thread drops to the lowest priority */
    int b = pct_best(0);
    if (b >= 0 && b != me) {
      record_dec(b);
      n_preempt++;
      handoff(b);
    }
    amp_target = -1;
    return;
  }
  if (amp_target >= 0) {
    const int i = amp_target;
    amp_target = -1;
    if ((rng_next(&R_sched) & 1) && T[i].st == ST_RUN) {
      record_dec(i);
      n_preempt++;
      handoff(i);
      return;
    }
  }
  uint32_t p = (boost_mask >> kind) & 1 ? (pinv > 8 ? pinv / 8 : 1) : pinv;
  if (rng_next(&R_sched) % p) return;
  int o = pick_random(1);
  if (o >= 0) {
    record_dec(o);
    n_preempt++;
    handoff(o);
  }
}
/* race amplification (scheduling heuristic only, never a verdict): a kernel thread that touches the
 * per-thread scheduler state of ANOTHER kernel thread is at a spot where the two threads' orders matter;
 * hand the baton to the owner half of the time. */
static struct {
  uint64_t lo, hi;
} mgr_range[MAXT];
void sim_register_manager(void* m, size_t size) {
  if (me >= 0 && me < MAXT && !mgr_range[me].lo) {
    mgr_range[me].lo = (uint64_t)m;
    mgr_range[me].hi = (uint64_t)m + size;
  }
}
void sim_access(const void* addr, size_t size, int kind) {
  if (!sim_active || me < 0) return;
  tso_commit_pending();
  alloc_check(addr, size);
  amp_target = -1;
  if (fiber_mode && !sched_replay && !preempt_off) {
    const uint64_t a = (uint64_t)addr;
    for (int i = 0; i < nthr; i++)
      if (i != me && mgr_range[i].lo && a - mgr_range[i].lo < mgr_range[i].hi - mgr_range[i].lo) {
        n_foreign_mgr++;
        amp_target = i; /* taken up inside the scheduling point, after the common preamble */
        break;
      }
  }
  sim_sched_point(kind);
}
/* cpu_relax() hook: the caller is spinning; somebody else must run */
void (*sim_hook_spin)(void);
static void spin_hint_inner(void);
void fiber_verif_spin_hint(void) {
  if (!sim_active || me < 0) return;
  tso_commit_pending();
  const int saved_errno = errno;
  rt_call((void*)spin_hint_inner, 0, 0, 0);
  errno = saved_errno;
}
static void spin_hint_inner(void) {
  tso_flush_me();
  if (sim_hook_spin) sim_hook_spin();
  if (pct_on) pct_prio[me] = --pct_low; /* a spinning thread must let the others run */
  account_step(K_SPIN);
  if (preempt_off) return;
  int o = choose_next(1);
  if (o >= 0) {
    n_forced++;
    handoff(o);
  } else {
    /* nobody else can run: spinning changes nothing until the clock reaches the next wake-up */
    uint64_t t = UINT64_MAX;
    for (int i = 0; i < nthr; i++)
      if (i != me) {
        uint64_t w = wake_time(i);
        if (w < t) t = w;
      }
    if (t != UINT64_MAX && t > now_ns) now_ns = t;
  }
}
void fiber_verif_dwcas(volatile void* location) {
  COV();
  sim_access((const void*)location, 16, K_DWCAS);
  tso_flush_me();
}
void fiber_verif_fence(void) {
  sim_sched_point(K_FENCE);
  tso_flush_me();
}

uint64_t sim_now(void) { return now_ns; }
uint64_t sim_steps(void) { return g_steps; }
int sim_thread_id(void) { return me; }
void sim_yield_point(void) { sim_sched_point(K_API); }
void sim_preempt_off(void) { preempt_off++; }
void sim_preempt_on(void) {
  if (preempt_off) preempt_off--;
}
void sim_progress(void) {
  last_progress_busy = busy_steps;
  last_progress_ns = now_ns;
}
void sim_set_quiet_ns(uint64_t ns) { quiet_ns = ns; }
void sim_compute(uint64_t ns) {
  if (!sim_active || me < 0) return;
  n_stalled++;
  T[me].st = ST_SLEEP;
  T[me].deadline = now_ns + ns;
  block_me();
  T[me].st = ST_RUN;
  n_stalled--;
  idle_since_ns = now_ns;
}
void sim_compute_until(uint64_t abs_ns) {
  if (!sim_active || me < 0 || abs_ns <= now_ns) return;
  sim_compute(abs_ns - now_ns);
}
void sim_wait_idle(void) {
  T[me].st = ST_WAITIDLE;
  block_me();
  T[me].st = ST_RUN;
}
void sim_fiber_mode(void) {
  fiber_mode = 1;
  T[0].is_fiber_thread = 1;
}

/* ---- threads ---- */
struct tramp {
  void* (*f)(void*);
  void* a;
  int id;
};
static struct tramp tramps[MAXT];
static void install_altstack(void);
static void* tramp_fn(void* p) {
  struct tramp t = *(struct tramp*)p;
  me = t.id;
  install_altstack();
  fwait(&T[me].go);
  void* r = t.f(t.a);
  tso_flush_me();
  T[me].st = ST_EXIT;
  T[me].tstep++;
  for (;;) {
    int any = 0;
    for (int i = 0; i < nthr; i++)
      if (runnable(i)) any = 1;
    if (any) break;
    uint64_t tm = UINT64_MAX;
    for (int i = 0; i < nthr; i++) {
      uint64_t w = wake_time(i);
      if (w < tm) tm = w;
    }
    if (tm == UINT64_MAX) finish(12, "violation", "STUCK-deadlock", "last runnable thread exited");
    if (tm > now_ns) now_ns = tm;
  }
  int o = choose_next(1);
  if (o >= 0) {
    T[o].last_run = g_steps;
    fwake(&T[o].go);
  }
  return r;
}
int __real_pthread_create(pthread_t*, const pthread_attr_t*, void* (*)(void*), void*);
int __real_pthread_join(pthread_t, void**);
static pthread_t thr_handles[MAXT];
int __wrap_pthread_create(pthread_t* thd, const pthread_attr_t* at, void* (*f)(void*), void* a) {
  if (!sim_active) return __real_pthread_create(thd, at, f, a);
  if (nthr >= MAXT) sim_violation("SIM-too-many-threads", "%d", nthr);
  tso_flush_me(); /* thread creation synchronises: everything the creator wrote is visible to the new thread */
  int id = nthr;
  tramps[id].f = f;
  tramps[id].a = a;
  tramps[id].id = id;
  T[id].st = ST_RUN;
  T[id].last_run = g_steps;
  pct_prio[id] = 1000 + (int)(rng_next(&R_sched) % 1000);
  T[id].in_maint = fiber_mode;
  T[id].is_fiber_thread = fiber_mode;
  nthr++;
  int r = __real_pthread_create(thd, at, tramp_fn, &tramps[id]);
  thr_handles[id] = *thd;
  return r;
}
int __wrap_pthread_join(pthread_t th_, void** ret) {
  if (!sim_active || me < 0) return __real_pthread_join(th_, ret);
  int id = -1;
  for (int i = 0; i < nthr; i++)
    if (pthread_equal(thr_handles[i], th_) && i != 0) id = i;
  if (id < 0) return __real_pthread_join(th_, ret);
  account_step(K_API);
  if (T[id].st != ST_EXIT) {
    T[me].st = ST_JOIN;
    T[me].join_target = id;
    block_me();
    T[me].st = ST_RUN;
  }
  return __real_pthread_join(th_, ret);
}

/* ------------------------------------------------------------------ */
/* TSan compiler ABI                                                  */
/* ------------------------------------------------------------------ */
static void tso_plain(const void* a, size_t n, int is_write);
#define RW(n)                                                                    \
  void __tsan_read##n(void* a) { COV(); sim_access(a, n, K_PLAIN); tso_plain(a, n, 0); }                    \
  void __tsan_write##n(void* a) { COV(); sim_access(a, n, K_PLAIN); if (!tso_plain_store(a, n)) tso_plain(a, n, 1); }                   \
  void __tsan_unaligned_read##n(void* a) { COV(); sim_access(a, n, K_PLAIN); tso_plain(a, n, 0); }          \
  void __tsan_unaligned_write##n(void* a) { COV(); sim_access(a, n, K_PLAIN); tso_plain(a, n, 1); }         \
  void __tsan_volatile_read##n(void* a) { COV(); sim_access(a, n, K_PLAIN); tso_plain(a, n, 0); }           \
  void __tsan_volatile_write##n(void* a) { COV(); sim_access(a, n, K_PLAIN); if (!tso_plain_store(a, n)) tso_plain(a, n, 1); }
RW(1) RW(2) RW(4) RW(8) RW(16)
void __tsan_write_range(void* a, long n) { COV(); sim_access(a, n > 0 ? n : 1, K_PLAIN); tso_plain(a, n > 0 ? n : 1, 1); }
void __tsan_read_range(void* a, long n) { COV(); sim_access(a, n > 0 ? n : 1, K_PLAIN); tso_plain(a, n > 0 ? n : 1, 0); }
void __tsan_func_entry(void* p) { (void)p; }
void __tsan_func_exit(void) {}
void __tsan_init(void) {}
void __tsan_vptr_update(void** a, void* b) { (void)a; (void)b; }
void __tsan_vptr_read(void** a) { (void)a; }
static long tsan_fiber_ids = 100;
void* __tsan_create_fiber(unsigned f) {
  (void)f;
  return (void*)(tsan_fiber_ids++);
}
void __tsan_destroy_fiber(void* f) { (void)f; }
void* __tsan_get_current_fiber(void) { return (void*)(tsan_fiber_ids++); }
void __tsan_set_fiber_name(void* f, const char* n) { (void)f; (void)n; }
void (*sim_hook_context_switch)(void);
void __tsan_switch_to_fiber(void* f, unsigned fl) {
  (void)f;
  (void)fl;
  sim_sched_point(K_FSWITCH);
  if (sim_active && me >= 0) {
    if (fiber_mode) ghost_switch();
    if (sim_hook_context_switch) sim_hook_context_switch();
  }
}
/* the ucontext back-end of fiber_context.c has no annotation at its switch: builds that use it wrap swapcontext */
struct ucontext_t;
extern int __real_swapcontext(struct ucontext_t*, const struct ucontext_t*) __attribute__((weak));
int __wrap_swapcontext(struct ucontext_t* o, const struct ucontext_t* n) {
  __tsan_switch_to_fiber(NULL, 0);
  return __real_swapcontext(o, n);
}
/* ---- optional x86-TSO store buffering for atomic stores weaker than seq_cst (DESIGN 2.11) ----
 * Every behaviour this produces is allowed by x86-TSO (it is TSO with extra flushes: before every plain
 * store, RMW, fence, seq_cst store, blocking call, and at random scheduling points). */
static int tso_on;
typedef struct {
  volatile void* a;
  uint64_t v;
  int sz;
} sbe_t;
static struct {
  sbe_t e[8];
  int n;
} SB[MAXT];
static void sb_flush(int t) {
  for (int i = 0; i < SB[t].n; i++) {
    sbe_t* e = &SB[t].e[i];
    TR("[%lu] t%d store buffer drains %p <- %#lx\n", g_steps, t, (void*)e->a, (unsigned long)e->v);
    switch (e->sz) {
      case 1: __atomic_store_n((volatile uint8_t*)e->a, (uint8_t)e->v, __ATOMIC_SEQ_CST); break;
      case 2: __atomic_store_n((volatile uint16_t*)e->a, (uint16_t)e->v, __ATOMIC_SEQ_CST); break;
      case 4: __atomic_store_n((volatile uint32_t*)e->a, (uint32_t)e->v, __ATOMIC_SEQ_CST); break;
      default: __atomic_store_n((volatile uint64_t*)e->a, e->v, __ATOMIC_SEQ_CST);
    }
  }
  SB[t].n = 0;
}
void sim_tso_enable(void) {
  tso_on = 1;
  fault_mask |= FBIT(F_TSO_FLUSH);
}
static void tso_maybe_flush(void) { /* a recorded, replayable decision like any fault */
  if (tso_on && me >= 0 && SB[me].n && fault_draw(F_TSO_FLUSH, 4, 1)) sb_flush(me);
}
static void tso_flush_me(void) {
  if (!tso_on || me < 0) return;
  tso_commit_pending();
  if (SB[me].n) sb_flush(me);
}
void sim_tso_sync(void) { tso_flush_me(); }
/* Plain stores (2.11, second extension). The compiler's hook runs before the store instruction, so the
 * runtime cannot keep the store from reaching memory; instead it remembers the old contents, lets the
 * store happen, and at the thread's next entry into the runtime - before any other thread can run -
 * puts the old contents back and moves the new value into the store buffer. Only naturally aligned
 * 1/2/4/8-byte stores into the arena (heap objects) are delayed; every other store drains the buffer
 * first, which keeps the thread's stores in order. */
static int tso_plain_on;
static struct {
  volatile void* a;
  uint64_t old;
  int sz;
} PEND[MAXT];
static uint64_t rd_raw(volatile void* a, int sz) {
  switch (sz) {
    case 1: return *(volatile uint8_t*)a;
    case 2: return *(volatile uint16_t*)a;
    case 4: return *(volatile uint32_t*)a;
    default: return *(volatile uint64_t*)a;
  }
}
static void wr_raw(volatile void* a, uint64_t v, int sz) {
  switch (sz) {
    case 1: *(volatile uint8_t*)a = (uint8_t)v; break;
    case 2: *(volatile uint16_t*)a = (uint16_t)v; break;
    case 4: *(volatile uint32_t*)a = (uint32_t)v; break;
    default: *(volatile uint64_t*)a = v;
  }
}
void sim_tso_enable_plain(void) {
  sim_tso_enable();
  tso_plain_on = 1;
}
static void tso_commit_pending(void) {
  if (!tso_plain_on || me < 0 || !PEND[me].a) return;
  volatile void* a = PEND[me].a;
  const int sz = PEND[me].sz;
  PEND[me].a = NULL;
  const uint64_t nv = rd_raw(a, sz);
  if (nv == PEND[me].old) {
    /* either a store of the value already there, or the store has not executed yet (for "*p = *q" the
     * compiler calls the write hook, then the read hook, then loads and stores): it will go to memory
     * directly, so everything older has to be there first */
    if (SB[me].n) sb_flush(me);
    return;
  }
  wr_raw(a, PEND[me].old, sz);
  TR("[%lu] t%d plain store %p <- %#lx delayed (memory keeps %#lx)\n", g_steps, me, (void*)a, (unsigned long)nv, (unsigned long)PEND[me].old);
  if (SB[me].n == 8) sb_flush(me);
  sbe_t* e = &SB[me].e[SB[me].n++];
  e->a = a;
  e->v = nv;
  e->sz = sz;
  n_tso_plain++;
}
/* called from the write hook after the scheduling point, immediately before the store executes */
static int tso_plain_store(const void* a, size_t n) {
  if (!tso_plain_on || me < 0 || !sim_active || fiber_mode) return 0;
  if (n > 8 || ((uintptr_t)a & (n - 1)) || !alloc_in_arena(a)) return 0;
  /* an older buffered store that overlaps without being the same cell: drain, keep it simple */
  for (int i = 0; i < SB[me].n; i++) {
    sbe_t* e = &SB[me].e[i];
    if ((uintptr_t)e->a < (uintptr_t)a + n && (uintptr_t)a < (uintptr_t)e->a + e->sz && !(e->a == a && e->sz == (int)n)) {
      sb_flush(me);
      break;
    }
  }
  PEND[me].a = (volatile void*)a;
  PEND[me].sz = (int)n;
  PEND[me].old = rd_raw((volatile void*)a, (int)n);
  return 1;
}
static int tso_store(volatile void* a, uint64_t v, int sz, int mo) {
  if (!tso_on || me < 0 || !sim_active || mo == __ATOMIC_SEQ_CST) return 0;
  if (SB[me].n == 8) sb_flush(me);
  sbe_t* e = &SB[me].e[SB[me].n++];
  e->a = a;
  e->v = v;
  e->sz = sz;
  n_tso_buffered++;
  return 1;
}
static int tso_load(const volatile void* a, int sz, uint64_t* out) {
  if (!tso_on || me < 0 || !SB[me].n) return 0;
  for (int i = SB[me].n - 1; i >= 0; i--) {
    sbe_t* e = &SB[me].e[i];
    if (e->a == a && e->sz == sz) {
      *out = e->v;
      n_tso_forwarded++;
      return 1;
    }
    if ((uintptr_t)e->a < (uintptr_t)a + sz && (uintptr_t)a < (uintptr_t)e->a + e->sz) { /* partial overlap */
      sb_flush(me);
      return 0;
    }
  }
  return 0;
}
static void tso_plain(const void* a, size_t n, int is_write) {
  if (!tso_on || me < 0 || !SB[me].n) return;
  if (is_write) {
    sb_flush(me); /* plain stores cannot be delayed by this model: keep store order by draining first */
    return;
  }
  for (int i = 0; i < SB[me].n; i++)
    if ((uintptr_t)SB[me].e[i].a < (uintptr_t)a + n && (uintptr_t)a < (uintptr_t)SB[me].e[i].a + SB[me].e[i].sz) {
      sb_flush(me);
      return;
    }
}
#define AT(bits, TY)                                                                                             \
  TY __tsan_atomic##bits##_load(const volatile TY* a, int mo) {                                                  \
    (void)mo;                                                                                                    \
    COV();                                                                                                       \
    sim_access((const void*)a, bits / 8, K_ALOAD);                                                               \
    uint64_t fw;                                                                                                 \
    if (tso_load((const volatile void*)a, bits / 8, &fw)) return (TY)fw;                                         \
    return __atomic_load_n(a, __ATOMIC_SEQ_CST);                                                                 \
  }                                                                                                              \
  void __tsan_atomic##bits##_store(volatile TY* a, TY v, int mo) {                                               \
    COV();                                                                                                       \
    sim_access((const void*)a, bits / 8, K_ASTORE);                                                              \
    if (tso_store((volatile void*)a, (uint64_t)v, bits / 8, mo)) return;                                         \
    tso_flush_me();                                                                                              \
    __atomic_store_n(a, v, __ATOMIC_SEQ_CST);                                                                    \
  }                                                                                                              \
  TY __tsan_atomic##bits##_exchange(volatile TY* a, TY v, int mo) {                                              \
    (void)mo;                                                                                                    \
    COV();                                                                                                       \
    sim_access((const void*)a, bits / 8, K_RMW);                                                                 \
    tso_flush_me();                                                                                              \
    return __atomic_exchange_n(a, v, __ATOMIC_SEQ_CST);                                                          \
  }                                                                                                              \
  TY __tsan_atomic##bits##_fetch_add(volatile TY* a, TY v, int mo) {                                             \
    (void)mo;                                                                                                    \
    COV();                                                                                                       \
    sim_access((const void*)a, bits / 8, K_RMW);                                                                 \
    tso_flush_me();                                                                                              \
    return __atomic_fetch_add(a, v, __ATOMIC_SEQ_CST);                                                           \
  }                                                                                                              \
  TY __tsan_atomic##bits##_fetch_sub(volatile TY* a, TY v, int mo) {                                             \
    (void)mo;                                                                                                    \
    COV();                                                                                                       \
    sim_access((const void*)a, bits / 8, K_RMW);                                                                 \
    tso_flush_me();                                                                                              \
    return __atomic_fetch_sub(a, v, __ATOMIC_SEQ_CST);                                                           \
  }                                                                                                              \
  TY __tsan_atomic##bits##_fetch_and(volatile TY* a, TY v, int mo) {                                             \
    (void)mo;                                                                                                    \
    COV();                                                                                                       \
    sim_access((const void*)a, bits / 8, K_RMW);                                                                 \
    tso_flush_me();                                                                                              \
    return __atomic_fetch_and(a, v, __ATOMIC_SEQ_CST);                                                           \
  }                                                                                                              \
  TY __tsan_atomic##bits##_fetch_or(volatile TY* a, TY v, int mo) {                                              \
    (void)mo;                                                                                                    \
    COV();                                                                                                       \
    sim_access((const void*)a, bits / 8, K_RMW);                                                                 \
    tso_flush_me();                                                                                              \
    return __atomic_fetch_or(a, v, __ATOMIC_SEQ_CST);                                                            \
  }                                                                                                              \
  TY __tsan_atomic##bits##_fetch_xor(volatile TY* a, TY v, int mo) {                                             \
    (void)mo;                                                                                                    \
    COV();                                                                                                       \
    sim_access((const void*)a, bits / 8, K_RMW);                                                                 \
    tso_flush_me();                                                                                              \
    return __atomic_fetch_xor(a, v, __ATOMIC_SEQ_CST);                                                           \
  }                                                                                                              \
  TY __tsan_atomic##bits##_fetch_nand(volatile TY* a, TY v, int mo) {                                            \
    (void)mo;                                                                                                    \
    COV();                                                                                                       \
    sim_access((const void*)a, bits / 8, K_RMW);                                                                 \
    tso_flush_me();                                                                                              \
    return __atomic_fetch_nand(a, v, __ATOMIC_SEQ_CST);                                                          \
  }                                                                                                              \
  int __tsan_atomic##bits##_compare_exchange_strong(volatile TY* a, TY* c, TY v, int mo, int fmo) {              \
    (void)mo;                                                                                                    \
    (void)fmo;                                                                                                   \
    COV();                                                                                                       \
    sim_access((const void*)a, bits / 8, K_RMW);                                                                 \
    tso_flush_me();                                                                                              \
    return __atomic_compare_exchange_n(a, c, v, 0, __ATOMIC_SEQ_CST, __ATOMIC_SEQ_CST);                          \
  }                                                                                                              \
  int __tsan_atomic##bits##_compare_exchange_weak(volatile TY* a, TY* c, TY v, int mo, int fmo) {                \
    (void)mo;                                                                                                    \
    (void)fmo;                                                                                                   \
    COV();                                                                                                       \
    sim_access((const void*)a, bits / 8, K_RMW);                                                                 \
    tso_flush_me();                                                                                              \
    return __atomic_compare_exchange_n(a, c, v, 0, __ATOMIC_SEQ_CST, __ATOMIC_SEQ_CST);                          \
  }                                                                                                              \
  TY __tsan_atomic##bits##_compare_exchange_val(volatile TY* a, TY c, TY v, int mo, int fmo) {                   \
    (void)mo;                                                                                                    \
    (void)fmo;                                                                                                   \
    COV();                                                                                                       \
    sim_access((const void*)a, bits / 8, K_RMW);                                                                 \
    tso_flush_me();                                                                                              \
    __atomic_compare_exchange_n(a, &c, v, 0, __ATOMIC_SEQ_CST, __ATOMIC_SEQ_CST);                                \
    return c;                                                                                                    \
  }
AT(8, uint8_t) AT(16, uint16_t) AT(32, uint32_t) AT(64, uint64_t)
void __tsan_atomic_thread_fence(int mo) {
  sim_sched_point(K_FENCE);
  if (mo == __ATOMIC_SEQ_CST || !tso_plain_on) tso_flush_me(); /* weaker fences emit no instruction on x86 */
}
void __tsan_atomic_signal_fence(int mo) { (void)mo; }

/* ------------------------------------------------------------------ */
/* ghosts: fiber switch state machine (C01), wake-up accounting (C02)  */
/* ------------------------------------------------------------------ */
enum { G_FRESH = 0, G_RUNNING, G_SAVED, G_DEAD };
typedef struct {
  void* f;
  void* stack;
  size_t stack_size;
  int g;
  int on;
  int pend;  /* scheduled, not yet handed out by next() */
  int inq;   /* number of run-queue slots holding it */
  int maint;
  uint32_t switch_ins;
  uint32_t wakeups;
  uint32_t schedules;
  int q_owner;          /* kernel thread that owns the run queue currently holding it (-1: none / unknown) */
  uint64_t q_pushed_at; /* fiber switches on that thread when it was pushed there */
  int null_next;        /* consecutive times the owning thread's scheduler returned nothing while this fiber was ready in its queue */
  int q_prev_owner;     /* the previous push: same thread, and the fiber has not run since? then the wait goes on */
  uint32_t q_prev_sw;
} gf_t;
static gf_t G[MAXF];
static int ng;
static int expect_next[MAXT];
static uint64_t stat_fswitch, stat_migr, stat_sched, stat_steal_ok;
static uint64_t fsw_thread[MAXT];
#define GH 2048
static int ghash[GH];
void ghost_init(void) {
  for (int i = 0; i < GH; i++) ghash[i] = -1;
}
static int gfind(void* f) {
  uint64_t h = ((uint64_t)f >> 4) * 0x9e3779b97f4a7c15ull >> 53;
  for (;; h = (h + 1) & (GH - 1)) {
    if (ghash[h] < 0) return -1;
    if (G[ghash[h]].f == f) return ghash[h];
  }
}
static int gidx(void* f) {
  int i = gfind(f);
  if (i >= 0) return i;
  if (ng >= MAXF) sim_violation("SIM-too-many-fibers", "%d", ng);
  uint64_t h = ((uint64_t)f >> 4) * 0x9e3779b97f4a7c15ull >> 53;
  while (ghash[h] >= 0) h = (h + 1) & (GH - 1);
  ghash[h] = ng;
  G[ng].f = f;
  G[ng].g = G_FRESH;
  G[ng].on = -1;
  int isthr = 0;
  glue_fiber_stack(f, &G[ng].stack, &G[ng].stack_size, &isthr);
  if (isthr) G[ng].stack = NULL;
  return ng++;
}
int sim_fiber_index(void* f) { return gfind(f); }
int sim_fiber_dead(void* f) {
  int i = gfind(f);
  return i >= 0 ? G[i].g == G_DEAD : sim_mem_is_freed(f);
}
int sim_fiber_switch_ins(void* f) {
  int i = gfind(f);
  return i >= 0 ? (int)G[i].switch_ins : 0;
}
long sim_fiber_bypassed(void* f) {
  int i = gfind(f);
  if (i < 0 || !G[i].inq || G[i].q_owner < 0) return -1;
  return (long)(fsw_thread[G[i].q_owner] - G[i].q_pushed_at);
}
int sim_fiber_wakeups(void* f) {
  int i = gfind(f);
  return i >= 0 ? (int)G[i].wakeups : 0;
}
void* sim_current_fiber(void) { return glue_current_fiber(); }
int sim_fiber_lib_state(void* f) { return f ? glue_fiber_state(f) : 0; }
int sim_fiber_is_saved(void* f) {
  int i = gfind(f);
  return i >= 0 && G[i].g == G_SAVED;
}
uint64_t sim_fiber_switches(void) { return stat_fswitch; }
uint64_t sim_migrations(void) { return stat_migr; }
uint64_t sim_fiber_switches_on_thread(int t) { return fsw_thread[t]; }
uint64_t sim_switch_ins_others(void* f) {
  int i = gfind(f);
  uint64_t tot = 0;
  for (int k = 0; k < ng; k++)
    if (k != i && !G[k].maint) tot += G[k].switch_ins;
  return tot;
}
int ghost_all_maint(void) {
  for (int i = 0; i < nthr; i++)
    if (T[i].is_fiber_thread && T[i].st != ST_EXIT && !T[i].in_maint) return 0;
  return 1;
}
void ghost_switch(void) {
  void *o = 0, *n = 0;
  int m = 0;
  glue_switch_info(&o, &n, &m);
  if (!o || !n) return;
  stat_fswitch++;
  fsw_thread[me]++;
  int io = gidx(o), in = gidx(n);
  if (G[io].g == G_FRESH && G[io].stack == NULL) { /* thread fiber first seen */
    G[io].g = G_RUNNING;
    G[io].on = me;
  }
  TR("[%lu] t%d fiber #%d -> #%d%s\n", g_steps, me, io, in, m ? " (maintenance)" : "");
  if (G[io].g != G_RUNNING || G[io].on != me)
    sim_violation("C01-switch-from-not-running", "thread %d switches away from fiber #%d whose ghost state is %d on thread %d", me, io, G[io].g, G[io].on);
  if (G[in].g == G_RUNNING)
    sim_violation("C01-resumed-while-running", "fiber #%d is executing on thread %d and is resumed on thread %d before its suspension completed", in, G[in].on, me);
  if (G[in].g == G_DEAD) sim_violation("C01-resumed-dead", "fiber #%d resumed after its control block was freed", in);
  if (!sim_mem_is_live(n)) sim_violation("C01-resumed-freed-block", "fiber #%d control block is not live memory", in);
  /* (stacks that are mappings of their own - the mmap-stack build - are outside the checked heap: resuming on
   * one that was unmapped faults) */
  if (G[in].stack && alloc_in_arena(G[in].stack) && !sim_mem_is_live(G[in].stack)) sim_violation("C01-resumed-freed-stack", "fiber #%d stack is not live memory", in);
  if (G[in].g == G_SAVED && G[in].on != me) stat_migr++;
  if (m) G[in].maint = 1;
  if (expect_next[me]) {
    if (expect_next[me] != in + 1)
      sim_violation("C02-dequeued-not-run", "scheduler handed out fiber #%d on thread %d but the thread switched to #%d", expect_next[me] - 1, me, in);
    expect_next[me] = 0;
  } else if (!m && !G[in].maint && G[in].stack != NULL)
    sim_violation("C02-run-without-dequeue", "thread %d switched to fiber #%d which no run queue handed out", me, in);
  G[io].g = G_SAVED;
  G[io].on = me;
  G[in].g = G_RUNNING;
  G[in].on = me;
  G[in].switch_ins++;
  int was = T[me].in_maint;
  T[me].in_maint = m;
  if (m && !was && ghost_all_maint()) idle_since_ns = now_ns;
  th(0xF1BE0000ull + io * 257 + in);
}
static void ghost_live_summary(char* out, size_t n) {
  static const char* const ls[] = {"?", "RUNNING", "READY", "WAITING", "DONE", "SAVING"};
  static const char* const gs[] = {"fresh", "running", "saved", "dead"};
  size_t k = 0;
  out[0] = 0;
  for (int i = 0; i < ng && k + 48 < n; i++) {
    if (G[i].g == G_DEAD || G[i].maint) continue;
    int st = glue_fiber_state(G[i].f);
    k += snprintf(out + k, n - k, "#%d(%s,%s on t%d%s) ", i, st >= 0 && st <= 5 ? ls[st] : "?", gs[G[i].g], G[i].on, G[i].pend ? ",queued" : "");
  }
}
void ghost_on_free(void* p, size_t size) {
  (void)size;
  if (!fiber_mode) return;
  int i = gfind(p);
  if (i < 0) {
    /* a stack? */
    for (int k = 0; k < ng; k++)
      if (G[k].stack == p && G[k].g != G_DEAD) {
        if (G[k].g == G_RUNNING) sim_violation("C01-stack-freed-while-running", "stack of fiber #%d freed while it executes on thread %d", k, G[k].on);
        if (G[k].pend || G[k].inq) sim_violation("C01-stack-freed-while-queued", "stack of fiber #%d freed while it is queued to run", k);
        int st = glue_fiber_state(G[k].f);
        if (st != 4) sim_violation("C01-stack-freed-not-done", "stack of fiber #%d freed in state %d", k, st);
      }
    return;
  }
  if (G[i].g == G_RUNNING) sim_violation("C01-freed-while-running", "fiber #%d control block freed while it executes on thread %d", i, G[i].on);
  if (G[i].g == G_DEAD) sim_violation("C01-freed-twice", "fiber #%d", i);
  if (G[i].pend || G[i].inq) sim_violation("C01-freed-while-queued", "fiber #%d freed while queued to run (pending=%d, slots=%d)", i, G[i].pend, G[i].inq);
  int st = glue_fiber_state(p);
  if (st != 4 /* FIBER_STATE_DONE */) sim_violation("C01-freed-not-done", "fiber #%d freed in state %d", i, st);
  for (int t = 0; t < nthr; t++)
    if (expect_next[t] == i + 1) sim_violation("C01-freed-while-dequeued", "fiber #%d freed between dequeue and switch", i);
  G[i].g = G_DEAD;
  TR("[%lu] t%d frees fiber #%d\n", g_steps, me, i);
}
void __real_fiber_scheduler_schedule(void* s, void* f);
void* __real_fiber_scheduler_next(void* s);
void __wrap_fiber_scheduler_schedule(void* s, void* f) {
  if (sim_active && me >= 0 && fiber_mode) {
    int i = gidx(f);
    if (G[i].pend) sim_violation("C02-scheduled-twice", "fiber #%d made runnable while an earlier wake-up is still queued", i);
    if (G[i].g == G_RUNNING && G[i].on != me && G[i].on >= 0 && glue_fiber_state(f) == 5 && (++n_saving_wakeups & 3) == 0) {
      /* woken while its own thread is still switching away from it, which the library handles (the fiber is marked
       * as saving): every fourth time that thread is kept off the baton for a while, so that the waker's thread
       * has to live with a queued fiber it cannot run yet */
      hold_until[G[i].on] = g_steps + 1500;
      sim_probe("woken_while_saving_thread_held", 1);
    }
    if (G[i].g == G_RUNNING && G[i].on != me && G[i].on >= 0 && glue_fiber_state(f) != 5 /* SAVING_STATE_TO_WAIT */) {
      /* made runnable (and visible to every scheduler) while it still executes and is not marked as saving:
       * not a verdict, but worth pursuing - keep its kernel thread off the baton for a while */
      hold_until[G[i].on] = g_steps + 1500;
      sim_probe("woken_while_still_running", 1);
      TR("[%lu] t%d schedules #%d which still runs on t%d (not saving): holding t%d\n", g_steps, me, i, G[i].on, G[i].on);
    }
    if (G[i].g == G_DEAD) sim_violation("C02-schedule-dead", "fiber #%d scheduled after being freed", i);
    G[i].pend = 1;
    if (G[i].schedules++ > 0 && !glue_is_yield_requeue(f)) {
      G[i].wakeups++;
      /* every fourth wake-up of a suspended fiber: the waker's kernel thread loses the baton for a while right
       * after publishing the fiber (not a verdict: it lets another thread take the woken fiber and run it
       * while the waker has not finished with it - a waker that still uses the waiter's list node shows) */
      if (nthr > 1 && G[i].g == G_SAVED && (++n_wakeups_seen & 3) == 0) {
        if ((n_wakeups_seen & 15) == 0 && (fault_mask & FBIT(F_STALL))) {
          /* every sixteenth, in runs that allow injected stalls anyway: away for a tick and a half of simulated
           * time, long enough for kernel threads asleep in epoll_wait to wake up, steal the fiber and run it */
          arm_steps = (int)(7500000 / cost_ns);
          arm_fire = 1;
          sim_probe("waker_stalled_after_wake_up", 1);
        } else {
          hold_until[me] = g_steps + 600;
          sim_probe("waker_held_after_wake_up", 1);
        }
      }
    }
    stat_sched++;
    th(0x5C4ED000ull + i);
    TR("[%lu] t%d schedule #%d\n", g_steps, me, i);
  }
  __real_fiber_scheduler_schedule(s, f);
}
void* __wrap_fiber_scheduler_next(void* s) {
  void* f = __real_fiber_scheduler_next(s);
  if (sim_active && me >= 0 && fiber_mode && !f) {
    /* C10: the scheduler found nothing to run. A fiber whose suspension is complete and which sits in this
     * thread's own run queue must be offered; being passed over once can happen (a batch that held only fibers
     * still being saved elsewhere), being passed over again and again cannot */
    for (int i = 0; i < ng; i++)
      if (G[i].inq && G[i].q_owner == me && G[i].g == G_SAVED && glue_fiber_state(G[i].f) != 5 /* SAVING_STATE_TO_WAIT */) {
        if (++G[i].null_next > 16)
          sim_violation("C10-ready-fiber-not-offered", "fiber #%d is ready and queued on kernel thread %d, whose scheduler has reported 'nothing to run' %d times in a row", i, me,
                        G[i].null_next);
      } else if (G[i].q_owner == me)
        G[i].null_next = 0;
  }
  if (sim_active && me >= 0 && fiber_mode && f) {
    gf_t* gg = &G[gidx(f)];
    gg->null_next = 0;
    int i = gidx(f);
    if (!G[i].pend) sim_violation("C02-handed-out-twice", "fiber #%d returned by the run queue with no wake-up pending", i);
    G[i].pend = 0;
    expect_next[me] = i + 1;
    TR("[%lu] t%d next -> #%d\n", g_steps, me, i);
  }
  return f;
}
void __real_wsd_work_stealing_deque_push_bottom(void* d, void* p);
void* __real_wsd_work_stealing_deque_pop_bottom(void* d);
void* __real_wsd_work_stealing_deque_steal(void* d);
/* the bottom end of a run queue belongs to one kernel thread (the deque has a single producer; C02's "one owner"):
 * whoever uses it first owns it, anybody else pushing or popping there breaks the protocol's precondition */
static struct {
  void* d;
  int owner;
} dq_owner[32];
static int n_dq_owner;
static void ghost_bottom_end(void* d, const char* what) {
  for (int k = 0; k < n_dq_owner; k++)
    if (dq_owner[k].d == d) {
      if (dq_owner[k].owner != me)
        sim_violation("C02-deque-second-owner", "kernel thread %d calls %s on a run queue whose bottom end belongs to kernel thread %d (the deque has one owner; everybody else may only steal)", me, what,
                      dq_owner[k].owner);
      return;
    }
  if (n_dq_owner < 32) {
    dq_owner[n_dq_owner].d = d;
    dq_owner[n_dq_owner++].owner = me;
  }
}
void __wrap_wsd_work_stealing_deque_push_bottom(void* d, void* p) {
  if (sim_active && me >= 0 && fiber_mode) {
    ghost_bottom_end(d, "push_bottom");
    int i = gidx(p);
    if (G[i].inq) sim_violation("C02-slot-duplicate", "fiber #%d pushed to a run queue while already in one", i);
    G[i].inq = 1;
    G[i].q_owner = me; /* only the owning kernel thread pushes to a run queue */
    /* taken out and put back by the same thread without having run, although its suspension was complete:
     * the fiber has been ready all along and keeps its count (a fiber put back because its context is still
     * being saved elsewhere starts afresh) */
    if (!(G[i].g == G_SAVED && G[i].q_prev_owner == me + 1 && G[i].q_prev_sw == G[i].switch_ins + 1)) G[i].q_pushed_at = fsw_thread[me];
    G[i].q_prev_owner = me + 1;
    G[i].q_prev_sw = G[i].switch_ins + 1;
  }
  __real_wsd_work_stealing_deque_push_bottom(d, p);
}
static void* ghost_taken(void* r, const char* how) {
  if (sim_active && me >= 0 && fiber_mode && r != (void*)-1 && r != (void*)-2) {
    int i = gfind(r);
    if (i < 0) sim_violation("C02-queue-invented", "%s returned %p which was never pushed", how, r);
    if (!G[i].inq) sim_violation("C02-slot-taken-twice", "%s returned fiber #%d which is not in any run queue (taken twice)", how, i);
    G[i].inq = 0;
    G[i].q_owner = -1;
  }
  return r;
}
void* __wrap_wsd_work_stealing_deque_pop_bottom(void* d) {
  if (sim_active && me >= 0 && fiber_mode) ghost_bottom_end(d, "pop_bottom");
  return ghost_taken(__real_wsd_work_stealing_deque_pop_bottom(d), "pop_bottom");
}
void* __wrap_wsd_work_stealing_deque_steal(void* d) {
  void* r = ghost_taken(__real_wsd_work_stealing_deque_steal(d), "steal");
  if (r != (void*)-1 && r != (void*)-2) stat_steal_ok++;
  return r;
}
/* spinlock ownership ghost: a spinlock handed to the scheduler for a deferred unlock (spinlock_to_unlock)
 * must not be released before its owner's context is saved */
int __real_fiber_spinlock_lock(void* l);
int __real_fiber_spinlock_trylock(void* l);
int __real_fiber_spinlock_unlock(void* l);
#define MAXSL 80
static struct {
  void* l;
  int owner; /* ghost fiber index + 1, 0 = free */
} SL[MAXSL];
static int nsl;
static int sl_find(void* l) {
  for (int i = 0; i < nsl; i++)
    if (SL[i].l == l) return i;
  if (nsl < MAXSL) {
    SL[nsl].l = l;
    SL[nsl].owner = 0;
    return nsl++;
  }
  return -1;
}
int __wrap_fiber_spinlock_lock(void* l) {
  int r = __real_fiber_spinlock_lock(l);
  if (sim_active && me >= 0 && fiber_mode) {
    void* f = glue_current_fiber();
    int i = sl_find(l);
    if (i >= 0 && f) SL[i].owner = gidx(f) + 1;
  }
  return r;
}
int __wrap_fiber_spinlock_trylock(void* l) {
  int r = __real_fiber_spinlock_trylock(l);
  if (r && sim_active && me >= 0 && fiber_mode) {
    void* f = glue_current_fiber();
    int i = sl_find(l);
    if (i >= 0 && f) SL[i].owner = gidx(f) + 1;
  }
  return r;
}
int __wrap_fiber_spinlock_unlock(void* l) {
  if (sim_active && me >= 0 && fiber_mode) {
    void* f = glue_current_fiber();
    int i = sl_find(l);
    if (i >= 0 && SL[i].owner && f) {
      int o = SL[i].owner - 1;
      if (G[o].f != f && G[o].g == G_RUNNING) {
        /* not a violation by itself (the fiber has not been resumed early yet): reach probe + trace */
        sim_probe("deferred_unlock_before_owner_saved", 1);
        TR("[%lu] t%d deferred unlock of a spinlock owned by fiber #%d which still runs on t%d\n", g_steps, me, o, G[o].on);
      }
      SL[i].owner = 0;
    }
  }
  return __real_fiber_spinlock_unlock(l);
}
/* C02 idle clause, literal reading: called when a kernel thread is about to block in epoll_wait.  If every
 * other kernel thread is already parked there and a fiber that is not in the middle of saving its context
 * sits in a run queue, "all idle while a runnable fiber is queued" holds at this instant.  Reach probe only:
 * the entry is not lost unless it stays there (that is what sim_check_quiescent and the idle budget decide). */
void ghost_idle_probe(void) {
  if (!fiber_mode) return;
  for (int i = 0; i < nthr; i++)
    if (i != me && T[i].is_fiber_thread && T[i].st != ST_EPOLL && T[i].st != ST_EXIT) return;
  for (int i = 0; i < ng; i++)
    if (G[i].inq && G[i].g != G_RUNNING && glue_fiber_state(G[i].f) != 5) {
      sim_probe("all_idle_with_runnable_fiber_queued", 1);
      return;
    }
}
int sim_pending_total(void) {
  int n = 0;
  for (int i = 0; i < ng; i++) n += G[i].pend;
  return n;
}
void sim_check_quiescent(void) {
  for (int i = 0; i < ng; i++) {
    if (G[i].pend)
      sim_violation("C02-left-queued-at-idle", "fiber #%d is still queued (wake-up never run) although every kernel thread is idle", i);
    if (G[i].inq) sim_violation("C02-slot-left-at-idle", "fiber #%d still occupies a run-queue slot at quiescence", i);
  }
  for (int t = 0; t < nthr; t++)
    if (expect_next[t]) sim_violation("C02-dequeued-not-run", "fiber #%d dequeued on thread %d and never switched to", expect_next[t] - 1, t);
}
extern int fiber_yield(void) __attribute__((weak));
void sim_drain(void) {
  for (int rounds = 0;; rounds++) {
    while (sim_pending_total() > 0) fiber_yield();
    sim_wait_idle();
    if (!sim_pending_total()) break;
  }
  sim_probe("steal_ok", 0);
}
void (*sim_hook_hp_scan_enter)(void* hptr);
void (*sim_hook_hp_scan_exit)(void* hptr);
void __real_hazard_pointer_scan(void* h);
void __wrap_hazard_pointer_scan(void* h) {
  if (sim_hook_hp_scan_enter) sim_hook_hp_scan_enter(h);
  __real_hazard_pointer_scan(h);
  if (sim_hook_hp_scan_exit) sim_hook_hp_scan_exit(h);
}

/* ------------------------------------------------------------------ */
/* configuration swarm                                                */
/* ------------------------------------------------------------------ */
sim_cfg_t sim_config(int tmin, int tmax, int w1, unsigned allowed_faults) {
  static const int ps[] = {5, 20, 100, 500, 2000};
  static const int cs[] = {1000, 50, 20000, 5000};
  sim_cfg_t c;
  if (w1 > 0 && tmin <= 1 && wl_pct(w1))
    c.threads = 1;
  else
    c.threads = wl_int(tmin, tmax);
  c.preempt_inv = ps[wl_pick(5)];
  c.cost_ns = cs[wl_pick(4)];
  c.boost = (unsigned)wl_int(0, (1 << K_NKINDS) - 1);
  c.faults = 0;
  if (allowed_faults && wl_pct(60)) {
    for (int k = 0; k < F_NKINDS; k++)
      if ((allowed_faults & FBIT(k)) && wl_pct(50)) c.faults |= FBIT(k);
  }
  /* three runs in ten use a PCT schedule with 1-3 change points somewhere in the first K scheduling points */
  int pol = wl_pick(10);
  if (pol >= 7 && !sched_replay) {
    static const int ks[] = {400, 1500, 6000, 25000};
    pct_on = 1;
    pct_nchange = wl_int(1, 3);
    uint64_t K = (uint64_t)ks[wl_pick(4)];
    for (int i = 0; i < pct_nchange; i++) pct_change[i] = 1 + rng_next(&R_sched) % K;
    pct_prio[0] = 1000 + (int)(rng_next(&R_sched) % 1000);
  } else if (pol >= 7) {
    (void)wl_int(1, 3);
    (void)wl_pick(4);
  }
  pinv = c.preempt_inv;
  cost_ns = c.cost_ns;
  boost_mask = c.boost;
  fault_mask = c.faults;
  return c;
}

/* ------------------------------------------------------------------ */
/* crash handler                                                      */
/* ------------------------------------------------------------------ */
static void crash_handler(int sig, siginfo_t* si, void* uc) {
  (void)uc;
  char d[200];
  snprintf(d, sizeof d, "signal %d (%s) fault address %p on thread %d", sig, sig == SIGSEGV ? "SIGSEGV" : sig == SIGBUS ? "SIGBUS" : sig == SIGABRT ? "SIGABRT" : sig == SIGILL ? "SIGILL" : "SIGFPE", si ? si->si_addr : 0, me);
  finish(13, "violation", "CRASH-signal", d);
}
static void install_altstack(void) {
  rt_stack_install();
  size_t sz = 1 << 16;
  void* st = mmap(0, sz, PROT_READ | PROT_WRITE, MAP_PRIVATE | MAP_ANONYMOUS, -1, 0);
  stack_t ss = {.ss_sp = st, .ss_size = sz};
  sigaltstack(&ss, 0);
}
static void install_handlers(void) {
  install_altstack();
  struct sigaction sa;
  memset(&sa, 0, sizeof sa);
  sa.sa_sigaction = crash_handler;
  sa.sa_flags = SA_ONSTACK | SA_SIGINFO | SA_NODEFER;
  sigaction(SIGSEGV, &sa, 0);
  sigaction(SIGBUS, &sa, 0);
  sigaction(SIGABRT, &sa, 0);
  sigaction(SIGILL, &sa, 0);
  sigaction(SIGFPE, &sa, 0);
}

/* ------------------------------------------------------------------ */
/* replay file (text)                                                 */
/* ------------------------------------------------------------------ */
static char* slurp(const char* path, size_t* len) {
  int fd = syscall(SYS_open, path, O_RDONLY);
  if (fd < 0) return NULL;
  size_t cap = 1 << 16, n = 0;
  char* b = sim_internal_alloc(cap);
  for (;;) {
    if (n + 4096 > cap) {
      char* nb = sim_internal_alloc(cap * 2);
      memcpy(nb, b, n);
      b = nb;
      cap *= 2;
    }
    long r = syscall(SYS_read, fd, b + n, cap - n - 1);
    if (r <= 0) break;
    n += r;
  }
  syscall(SYS_close, fd);
  b[n] = 0;
  *len = n;
  return b;
}
static int load_replay(const char* path) {
  size_t len;
  char* b = slurp(path, &len);
  if (!b) return -1;
  char* save = NULL;
  for (char* line = strtok_r(b, "\n", &save); line; line = strtok_r(NULL, "\n", &save)) {
    char* sp = strchr(line, ' ');
    char* rest = sp ? sp + 1 : line + strlen(line);
    if (sp) *sp = 0;
    if (!strcmp(line, "seed")) {
      run_seed = strtoull(rest, 0, 10);
      sched_seed = run_seed;
    } else if (!strcmp(line, "schedseed"))
      sched_seed = strtoull(rest, 0, 10);
    else if (!strcmp(line, "tier"))
      tier_thorough = !strncmp(rest, "thorough", 8);
    else if (!strcmp(line, "harness")) {
      if (strcmp(rest, H_NAME)) {
        rawlog("replay file is for harness %s, this is %s\n", rest, H_NAME);
        return -2;
      }
    } else if (!strcmp(line, "choices")) {
      ch_replay = 1;
      char* e = rest;
      while (*e && nch_in < MAXCH) {
        long v = strtol(e, &e, 10);
        ch_in[nch_in++] = (int)v;
        while (*e == ' ') e++;
      }
    } else if (!strcmp(line, "sched")) {
      sched_replay = 1;
      size_t cnt = 0;
      for (char* e = rest; *e; e++)
        if (*e == ':') cnt++;
      cnt = cnt / 2 + 1;
      for (int t = 0; t < MAXT; t++) dec_in[t] = sim_internal_alloc(cnt * sizeof(dec_t));
      char* e = rest;
      while (*e) {
        unsigned long tid = strtoul(e, &e, 10);
        if (*e != ':') break;
        e++;
        unsigned long long ts = strtoull(e, &e, 10);
        if (*e != ':') break;
        e++;
        unsigned long to = strtoul(e, &e, 10);
        while (*e == ' ') e++;
        if (tid < MAXT) {
          dec_t* d = &dec_in[tid][ndec_in[tid]++];
          d->tid = tid;
          d->tstep = ts;
          d->to = to;
        }
      }
    } else if (!strcmp(line, "faults")) {
      fault_replay = 1;
      size_t cnt = 1;
      for (char* e = rest; *e; e++)
        if (*e == ' ') cnt++;
      fdec_in = sim_internal_alloc(cnt * sizeof(fdec_t));
      char* e = rest;
      while (*e) {
        unsigned long kind = strtoul(e, &e, 10);
        if (*e != ':') break;
        e++;
        unsigned long long idx = strtoull(e, &e, 10);
        if (*e != ':') break;
        e++;
        unsigned long long val = strtoull(e, &e, 10);
        while (*e == ' ') e++;
        fdec_in[nfdec_in].kind = kind;
        fdec_in[nfdec_in].idx = idx;
        fdec_in[nfdec_in].val = val;
        nfdec_in++;
      }
    }
  }
  return 0;
}

/* ------------------------------------------------------------------ */
/* one run (child process) and the batch loop                          */
/* ------------------------------------------------------------------ */
static void child_run(int fd) {
  result_fd = fd;
  n_recent_blocks = 0; /* (what the batch process allocated before this run is not part of the run) */
  arena_off_at_run_start = arena_off;
  dec_rec = sim_internal_alloc(sizeof(dec_t) * MAXDEC);
  fdec_rec = sim_internal_alloc(sizeof(fdec_t) * MAXFDEC);
  rng_seed(&R_sched, sched_seed, 1);
  rng_seed(&R_fault, sched_seed, 2);
  rng_seed(&R_wl, run_seed, 3);
  ghost_init();
  k_init();
  install_handlers();
  me = 0;
  T[0].st = ST_RUN;
  nthr = 1;
  sim_active = 1;
  h_run();
  finish(14, "violation", "SIM-harness-returned", "h_run returned without a verdict");
}
static int run_child_collect(uint64_t seed, const char* replay_path, int timeout_ms) {
  int pfd[2];
  if (syscall(SYS_pipe2, pfd, 0)) return 2;
  pid_t c = fork();
  if (c < 0) return 2;
  if (!c) {
    syscall(SYS_close, pfd[0]);
    run_seed = sched_seed = seed;
    if (replay_path && load_replay(replay_path)) syscall(SYS_exit_group, 97);
    child_run(pfd[1]);
  }
  syscall(SYS_close, pfd[1]);
  size_t cap = 1 << 16, n = 0;
  char* buf = sim_internal_alloc(cap);
  struct timespec t0, t1;
  clock_gettime(CLOCK_MONOTONIC, &t0);
  int timed_out = 0;
  for (;;) {
    struct pollfd p = {.fd = pfd[0], .events = POLLIN};
    clock_gettime(CLOCK_MONOTONIC, &t1);
    long el = (t1.tv_sec - t0.tv_sec) * 1000 + (t1.tv_nsec - t0.tv_nsec) / 1000000;
    if (el >= timeout_ms) {
      timed_out = 1;
      kill(c, SIGKILL);
      break;
    }
    int pr = poll(&p, 1, timeout_ms - el);
    if (pr < 0 && errno == EINTR) continue;
    if (pr == 0) continue;
    if (n + 8192 > cap) {
      char* nb = sim_internal_alloc(cap * 2);
      memcpy(nb, buf, n);
      buf = nb;
      cap *= 2;
    }
    long r = syscall(SYS_read, pfd[0], buf + n, cap - n - 1);
    if (r < 0 && errno == EINTR) continue;
    if (r <= 0) break;
    n += r;
  }
  syscall(SYS_close, pfd[0]);
  int st = 0;
  waitpid(c, &st, 0);
  if (timed_out) {
    char m[256];
    int k = snprintf(m, sizeof m, "{\"seed\":%lu,\"verdict\":\"walltimeout\",\"harness\":\"%s\",\"property\":\"%s\"}\n", seed, H_NAME, H_PROPERTY);
    rawwrite(1, m, k);
    return 3;
  }
  if (n == 0) {
    char m[256];
    int code = WIFEXITED(st) ? WEXITSTATUS(st) : -WTERMSIG(st);
    int k = snprintf(m, sizeof m, "{\"seed\":%lu,\"verdict\":\"noresult\",\"exit\":%d,\"harness\":\"%s\",\"property\":\"%s\"}\n", seed, code, H_NAME, H_PROPERTY);
    rawwrite(1, m, k);
    return 3;
  }
  rawwrite(1, buf, n);
  return WIFEXITED(st) ? WEXITSTATUS(st) : 3;
}
int main(int argc, char** argv) {
  /* no ASLR: diagnostics and address-dependent library behaviour (sorted hazard
   * lists) are identical between a run and its replay */
  if (!getenv("FIBERSIM_NOASLR_DONE")) {
    int pers = personality(0xffffffff);
    if (pers != -1 && !(pers & ADDR_NO_RANDOMIZE) && personality(pers | ADDR_NO_RANDOMIZE) != -1) {
      setenv("FIBERSIM_NOASLR_DONE", "1", 1);
      execv("/proc/self/exe", argv);
    }
  }
  if (getenv("SIM_TRACE")) trace_on = 1;
  uint64_t s0 = 0, cnt = 0;
  const char* replay = NULL;
  int timeout_ms = 20000;
  for (int i = 1; i < argc; i++) {
    if (!strcmp(argv[i], "--seeds") && i + 2 < argc) {
      s0 = strtoull(argv[i + 1], 0, 10);
      cnt = strtoull(argv[i + 2], 0, 10);
      i += 2;
    } else if (!strcmp(argv[i], "--tier") && i + 1 < argc) {
      tier_thorough = !strcmp(argv[++i], "thorough");
    } else if (!strcmp(argv[i], "--replay") && i + 1 < argc) {
      replay = argv[++i];
    } else if (!strcmp(argv[i], "--dump")) {
      dump_always = 1;
    } else if (!strcmp(argv[i], "--compact")) {
      compact_ok = 1;
    } else if (!strcmp(argv[i], "--cpu") && i + 1 < argc) {
      /* all threads of a run on one core: baton hand-offs become same-core context switches */
      cpu_set_t cs;
      CPU_ZERO(&cs);
      CPU_SET(atoi(argv[++i]), &cs);
      sched_setaffinity(0, sizeof cs, &cs);
    } else if (!strcmp(argv[i], "--timeout-ms") && i + 1 < argc) {
      timeout_ms = atoi(argv[++i]);
    } else if (!strcmp(argv[i], "--name")) {
      printf("%s %s\n", H_NAME, H_PROPERTY);
      return 0;
    } else {
      fprintf(stderr, "usage: %s [--tier quick|thorough] (--seeds START COUNT | --replay FILE) [--dump] [--timeout-ms N]\n", argv[0]);
      return 2;
    }
  }
  if (getenv("SIM_COV")) {
    cov_base = (uintptr_t)&__executable_start;
    cov_size = (uintptr_t)&etext - cov_base;
    int cfd = open(getenv("SIM_COV"), O_RDWR | O_CREAT, 0644);
    if (cfd >= 0 && ftruncate(cfd, (off_t)cov_size) == 0) {
      void* m = mmap(NULL, cov_size, PROT_READ | PROT_WRITE, MAP_SHARED, cfd, 0);
      if (m != MAP_FAILED) covmap = m;
    }
  }
  if (replay) {
    int r = run_child_collect(0, replay, timeout_ms);
    return r == 0 ? 0 : (r == 10 || r == 11 || r == 12 || r == 13 || r == 14) ? 1 : 2;
  }
  int worst = 0;
  for (uint64_t s = s0; s < s0 + cnt; s++) {
    int r = run_child_collect(s, NULL, timeout_ms);
    if (r != 0 && worst == 0) worst = r;
  }
  return worst == 0 ? 0 : (worst >= 10 && worst <= 14) ? 1 : 2;
}
