/* fibersim: public API used by harnesses (harness code is instrumented; the
 * runtime behind this header is not).  See /verif/DESIGN.md section 2. */
#ifndef FIBERSIM_H
#define FIBERSIM_H
#include <stddef.h>
#include <stdint.h>

#define NS __attribute__((no_sanitize_thread, noinline))
#define SIM_NORETURN __attribute__((noreturn))

/* ---- harness description (defined by each harness TU) ---- */
extern const char* const H_NAME;     /* e.g. "c12_barrier" */
extern const char* const H_PROPERTY; /* e.g. "C12" */
void h_run(void);                    /* one simulated run; must end in sim_finish_ok() */

/* ---- workload choices: recorded in the replay file, shrinkable ---- */
int wl_int(int lo, int hi); /* inclusive */
int wl_pick(int n);         /* 0..n-1 */
int wl_pct(int pct);        /* 1 with probability pct% */
int sim_tier_thorough(void);

/* ---- standard per-run configuration (draws from the workload stream) ---- */
typedef struct sim_cfg {
  int threads;      /* kernel threads for fiber_manager_init */
  int preempt_inv;  /* 1/p preemption probability */
  int cost_ns;      /* simulated ns per scheduling point */
  unsigned boost;   /* bit mask of boosted site kinds */
  unsigned faults;  /* bit mask of enabled fault kinds */
} sim_cfg_t;
/* tmin..tmax kernel threads; w1 = percentage weight for exactly one thread (0 = uniform) */
sim_cfg_t sim_config(int tmin, int tmax, int w1, unsigned allowed_faults);

/* ---- fault kinds (bit numbers) ---- */
enum {
  F_SHORT_IO = 0,   /* short read/write */
  F_SPURIOUS,       /* EAGAIN after readiness was reported */
  F_DELAY_REPORT,   /* readiness reported late to epoll_wait */
  F_EINTR,          /* epoll_wait returns EINTR */
  F_STALL,          /* kernel thread stalls for 1us..200ms */
  F_CONNECT_SLOW,   /* connect returns EINPROGRESS and completes later */
  F_CONNECT_FAIL,   /* connect fails through SO_ERROR */
  F_PEER_RESET,     /* not injected by the kernel; performed by harness scripts */
  F_ALLOC_FAIL,     /* malloc/calloc returns NULL at a chosen call */
  F_EV_FEWER,       /* epoll_wait returns fewer events than ready */
  F_TSO_FLUSH,      /* TSO mode: a buffered store becomes visible at this scheduling point */
  F_NKINDS
};
#define FBIT(k) (1u << (k))

/* ---- time, steps, progress ---- */
uint64_t sim_now(void);
uint64_t sim_steps(void);
void sim_progress(void);
void sim_set_quiet_ns(uint64_t ns); /* idle stuck budget (default 40 ticks) */
void sim_compute(uint64_t ns);      /* this kernel thread is unavailable for ns */
void sim_compute_until(uint64_t abs_ns); /* ... until the simulated clock reads abs_ns */
int sim_thread_id(void);
void sim_yield_point(void); /* explicit scheduling point */
void sim_preempt_off(void); /* prefill phases: no preemption, no step cost */
void sim_preempt_on(void);
void sim_tso_enable(void);  /* x86-TSO store buffering for atomic stores weaker than seq_cst (data-structure harnesses only) */
void sim_tso_enable_plain(void); /* ... and for plain aligned stores into heap objects (thread-mode harnesses only) */
void sim_stall_after_rmw(int nth, int steps); /* the calling kernel thread sleeps for `steps` scheduling points' worth of time right after its nth atomic RMW from now */
void sim_hold_before_dwcas(volatile int* reached, volatile int* release, int max_steps); /* the calling kernel thread is preempted right before its next double-word CAS until *release != 0 (or max_steps) */
void sim_stall_after_timer_read(int steps); /* ... right after its next successful read of the timer descriptor */
void simk_thread_locked(int on); /* the calling kernel thread is (no longer) locked with fiber_io_lock_thread() */
void sim_tso_sync(void);         /* drain the calling thread's store buffer: call where the harness regards an operation as complete */

/* ---- verdicts ---- */
void sim_violation(const char* oracle, const char* fmt, ...) SIM_NORETURN
    __attribute__((format(printf, 2, 3)));
void sim_finish_ok(void) SIM_NORETURN;
void sim_nontrivial(void);       /* this run exercised the property's non-trivial predicate */
void sim_probe(const char* name, uint64_t add); /* named reach counter */
void sim_describe(const char* fmt, ...) __attribute__((format(printf, 1, 2))); /* sample text */
/* known-finding scenario tag: violations raised while a tag is set carry it */
void sim_scenario(const char* tag);
void sim_trace(const char* fmt, ...) __attribute__((format(printf, 1, 2))); /* only printed with SIM_TRACE=1 */

/* ---- fiber-runtime ghosts ---- */
void sim_fiber_mode(void);      /* call before fiber_manager_init */
int sim_pending_total(void);    /* fibers scheduled and not yet handed out */
void sim_wait_idle(void);       /* block until every other kernel thread is idle */
void sim_drain(void);           /* DESIGN 2.8 quiescence */
int sim_fiber_index(void* f);   /* creation index of a fiber (ghost), -1 unknown */
int sim_fiber_dead(void* f);    /* control block freed */
int sim_fiber_switch_ins(void* f);
long sim_fiber_bypassed(void* f); /* fiber switches on the kernel thread whose run queue has held f since f was pushed there; -1 if f is not queued */
int sim_fiber_wakeups(void* f);   /* times f was made runnable by a wake-up (not creation, not its own yield) */
void* sim_current_fiber(void);
int sim_fiber_lib_state(void* f); /* libfiber's fiber_t.state */
int sim_fiber_is_saved(void* f);  /* ghost: switched out, context saved */
void* sim_old_fiber(void); /* inside sim_hook_context_switch: the fiber being switched away from */
uint64_t sim_fiber_switches(void);
uint64_t sim_migrations(void);
void sim_check_quiescent(void); /* ghost invariants at quiescence (C02 idle clause, C01/C04 ledger) */
uint64_t sim_switch_ins_others(void* f); /* switch-ins of fibers other than f on any thread so far */
uint64_t sim_fiber_switches_on_thread(int t);

/* ---- allocator oracle ---- */
void sim_mem_hold(void* p); /* a later free() of p is recorded (ledger, ghosts) but the memory stays readable */
void* sim_alloc_high(size_t n); /* zeroed block more than 2 GiB above the ordinary heap blocks */
int sim_mem_is_live(const void* p);
int sim_mem_is_freed(const void* p);
size_t sim_live_blocks(void);
void sim_alloc_fail_at(long nth); /* the nth allocation from now returns NULL (0 = off) */
long sim_alloc_count(void);
void sim_poison_stack_below(void); /* overwrite the dead part of the current stack with poison */

/* ---- hooks harnesses may install ---- */
extern void (*sim_hook_spin)(void);            /* called at every cpu_relax() of the calling thread */
extern void (*sim_hook_context_switch)(void);  /* called at every fiber_context_swap (after the ghost) */
extern void (*sim_hook_hp_scan_enter)(void* hptr);
extern void (*sim_hook_hp_scan_exit)(void* hptr);

/* ---- simulated kernel (beyond the POSIX calls libfiber shims) ---- */
int simk_listen(int fd, int port);
int simk_pipe_capacity(void);
void simk_set_capacity(int cap);
void simk_set_soft_fd_limit(int n); /* what getrlimit reports as rlim_cur (hard limit stays 64) */
/* per-call tracking for the C08 oracle: underlying calls made by the current fiber */
void simk_call_begin(void);
typedef struct simk_call {
  int n_under;         /* number of underlying calls */
  long last_ret;       /* result of the last one */
  int last_errno;
  int prev_all_again;  /* every earlier underlying call returned EAGAIN/EINPROGRESS */
  uint64_t last_off;   /* stream offset of the data moved by the last call */
  int kernel_eof;      /* last call reported EOF */
  int waits;           /* epoll registrations made by this fiber during the call */
} simk_call_t;
void simk_call_end(simk_call_t* out);
int simk_fd_open(int fd);
uint64_t simk_stream_written(int fd); /* bytes accepted by the kernel on fd's tx stream */
uint64_t simk_stream_read(int fd);    /* bytes handed out on fd's rx stream */
int simk_fd_ready_in(int fd);
uint64_t simk_fault_count(int kind);

/* ---- history / linearizability (lin.c) ---- */
enum { M_FIFO = 1, M_BFIFO, M_LIFO, M_STACK_FLUSH };
void hist_reset(int model, int capacity);
int hist_invoke(int thread, int op, long arg);
void hist_return(int idx, long res);
void hist_drop(int idx); /* operation abandoned (e.g. RETRY): removed from history */
int hist_count(void);
/* returns 0 if linearizable, else -1 and fills msg */
int hist_check(char* msg, size_t msglen); /* 0 linearizable, -1 not (msg filled), -2 search budget exhausted */
uint64_t hist_seq_hash(const long* v, int n);
enum { OP_PUSH = 1, OP_POP, OP_TRYPUSH, OP_FLUSH_LIFO, OP_FLUSH_FIFO };
#define RES_EMPTY (-1L)
#define RES_FAIL (-2L)
#define RES_OK (0L)

#endif
