/* glue: compiled with the same flags as libfiber (so struct layouts match, in
 * particular fiber_context_t's tsan_fiber member) but never instrumented. */
#include <stddef.h>
#include <stdint.h>
#include <string.h>

#include "fiber_manager.h"
#define NSG __attribute__((no_sanitize_thread))

NSG void glue_switch_info(void** oldf, void** newf, int* is_maint) {
  fiber_manager_t* m = fiber_manager_get();
  if (!m) {
    *oldf = *newf = 0;
    return;
  }
  *oldf = m->old_fiber;
  *newf = m->current_fiber;
  *is_maint = (m->current_fiber == m->maintenance_fiber);
}
NSG int glue_fiber_state(void* f) { return ((fiber_t*)f)->state; }
NSG void glue_fiber_stack(void* f, void** lo, size_t* size, int* is_thread) {
  fiber_t* fb = (fiber_t*)f;
  *lo = fb->context.ctx_stack;
  *size = fb->context.ctx_stack_size;
  *is_thread = fb->context.is_thread;
}
NSG void* glue_current_fiber(void) {
  fiber_manager_t* m = fiber_manager_get();
  return m ? (void*)m->current_fiber : NULL;
}
/* is f the fiber this kernel thread is re-queueing after its own yield? */
NSG int glue_is_yield_requeue(void* f) {
  fiber_manager_t* m = fiber_manager_get();
  return m && (void*)m->to_schedule == f;
}
NSG void* sim_old_fiber(void) {
  fiber_manager_t* m = fiber_manager_get();
  return m ? (void*)m->old_fiber : NULL;
}
NSG size_t glue_sizeof_fiber(void) { return sizeof(fiber_t); }
/* overwrite the dead part of the current fiber's stack (below the caller's frame) */
NSG __attribute__((noinline)) void sim_poison_stack_below(void) {
  fiber_manager_t* m = fiber_manager_get();
  if (!m) return;
  fiber_t* f = m->current_fiber;
  if (!f || f->context.is_thread || !f->context.ctx_stack) return;
  char* lo = (char*)f->context.ctx_stack;
  char* hi = (char*)__builtin_frame_address(0) - 512;
  if (hi > lo && hi < lo + f->context.ctx_stack_size) memset(lo, 0xFB, (size_t)(hi - lo));
}

/* C18 (spinlock under plain threads): fiber_spinlock_lock() bumps a statistics counter in the calling
 * thread's fiber manager.  Threads of pure data-structure harnesses have none; give them a dummy one. */
extern int fiber_mode;
extern int sim_active;
extern void sim_register_manager(void* m, size_t size);
fiber_manager_t* __real_fiber_manager_get(void);
NSG fiber_manager_t* __wrap_fiber_manager_get(void) {
  fiber_manager_t* m = __real_fiber_manager_get();
  if (m && fiber_mode) {
    static __thread int registered;
    if (!registered) {
      registered = 1;
      /* the deferred-action fields, from to_schedule up to (not including) the scheduler pointer */
      sim_register_manager((char*)m + offsetof(fiber_manager_t, to_schedule), offsetof(fiber_manager_t, scheduler) - offsetof(fiber_manager_t, to_schedule));
    }
  }
  if (!m && sim_active && !fiber_mode) {
    static __thread fiber_manager_t dummy;
    return &dummy;
  }
  return m;
}
