/* internal declarations shared by the runtime files (none of them instrumented) */
#ifndef SIMINT_H
#define SIMINT_H
#define _GNU_SOURCE
#include <errno.h>
#include <stdarg.h>
#include <stdatomic.h>
#include <stddef.h>
#include <stdint.h>
#include <stdio.h>
#include <string.h>
#include <sys/syscall.h>
#include <unistd.h>

#include "sim.h"

#define MAXT 12
#define MAXF 1024
#define TICK_NS 5000000ull

enum { ST_NONE = 0, ST_RUN, ST_EPOLL, ST_SLEEP, ST_WAITIDLE, ST_JOIN, ST_EXIT };

/* site kinds for preemption boosting */
enum { K_PLAIN = 0, K_ALOAD, K_ASTORE, K_RMW, K_FSWITCH, K_DWCAS, K_FENCE, K_KERNEL, K_API, K_SPIN, K_NKINDS };

typedef struct thr {
  _Atomic int go;
  int st;
  uint64_t deadline;
  uint64_t last_run;
  uint64_t tstep;
  int in_maint;
  int join_target;
  int epfd;
  int is_fiber_thread;
} thr_t;

extern thr_t T[MAXT];
extern int nthr;
extern __thread int me;
extern int sim_active;
extern uint64_t now_ns, g_steps, cost_ns;
extern int trace_on;
extern int fiber_mode;
extern unsigned fault_mask;

void rawlog(const char* fmt, ...) __attribute__((format(printf, 1, 2)));
#define TR(...)                   \
  do {                            \
    if (trace_on) rawlog(__VA_ARGS__); \
  } while (0)

void th(uint64_t v); /* trace hash */

/* scheduler */
void sim_sched_point(int kind);
void sim_access(const void* addr, size_t size, int kind);
void block_me(void);
uint64_t rnd_fault(void);
/* fault draw: returns value in [1,maxv] if the fault of this kind fires at this opportunity, else 0 */
uint64_t fault_draw(int kind, uint32_t inv_prob, uint64_t maxv);
void sim_internal_timer_was_read(void);

/* allocator */
void alloc_check(const void* addr, size_t size);
int alloc_in_arena(const void* p);
void* sim_internal_alloc(size_t n); /* never fails, not counted */

/* kernel */
int k_epoll_ready_for(int tid);            /* would epoll_wait of blocked thread tid return events now */
uint64_t k_next_event_time(void);          /* earliest future time kernel state changes by itself */
void k_init(void);
void* k_dlsym(const char* name);
int k_timer_registered_readable(void);

/* ghost */
void ghost_on_free(void* p, size_t size);
void ghost_switch(void);
void ghost_init(void);
int ghost_all_maint(void);
void ghost_idle_probe(void);

/* glue (instrumented flags, no_sanitize_thread) */
void glue_switch_info(void** oldf, void** newf, int* is_maint);
int glue_fiber_state(void* f);
void glue_fiber_stack(void* f, void** lo, size_t* size, int* is_thread);
void* glue_current_fiber(void);
size_t glue_sizeof_fiber(void);
int glue_is_yield_requeue(void* f);

/* results */
void finish(int code, const char* verdict, const char* oracle, const char* detail) SIM_NORETURN;

#endif
