/* fibersim simulated kernel: descriptors (pipes, stream sockets, listeners),
 * epoll, timerfd, sleeping.  Stub for Linux; see DESIGN.md B.1.  NOT instrumented. */
#include <fcntl.h>
#include <netinet/in.h>
#include <sys/epoll.h>
#include <sys/ioctl.h>
#include <sys/resource.h>
#include <sys/socket.h>
#include <sys/timerfd.h>
#include <sys/uio.h>
#include <time.h>

#include "simint.h"

#define KMAXFD 64
#define KCAPMAX 4096
enum { KF_FREE = 0, KF_PIPE_R, KF_PIPE_W, KF_SOCK, KF_LISTEN, KF_TIMER, KF_EPOLL, KF_UNCONN, KF_CONNECTING };

typedef struct stream {
  uint8_t buf[KCAPMAX];
  int cap, len, head;
  int wclosed, rclosed;
  int is_pipe;
  uint64_t roff, woff;
} stream_t;
typedef struct conn {
  stream_t c2s, s2c;
  int client_fd;
  int client_closed;
  int serial; /* unique per connection */
} conn_t;
static int conn_serial;
typedef struct kfd {
  int kind;
  int nonblock;
  stream_t *rx, *tx;
  /* listener */
  int port;
  conn_t* backlog[16];
  int nbacklog;
  /* connecting */
  uint64_t connect_at;
  int connect_fail;
  int so_error;
  conn_t* pending;
  int listener_fd;
  /* epoll registration (one epoll instance at a time is enough for libfiber) */
  int ep_added;
  uint32_t ep_mask;
  int ep_armed;
  uint64_t ep_data;
  uint64_t vis_in, vis_out;
} kfd_t;
static kfd_t K[KMAXFD];
static uint64_t timer_next, timer_interval;
static int timer_fd = -1;
static int cfg_cap = 64;

/* per-fiber call tracking for the C08 oracle */
#define MAXCALL 64
static struct {
  void* key;
  int active;
  simk_call_t c;
} calls[MAXCALL];
static void* call_key(void) {
  void* f = fiber_mode ? glue_current_fiber() : NULL;
  return f ? f : (void*)(intptr_t)(me + 1);
}
static simk_call_t* call_slot(int create) {
  void* k = call_key();
  int freei = -1;
  for (int i = 0; i < MAXCALL; i++) {
    if (calls[i].active && calls[i].key == k) return &calls[i].c;
    if (!calls[i].active && freei < 0) freei = i;
  }
  if (!create || freei < 0) return NULL;
  calls[freei].key = k;
  calls[freei].active = 1;
  memset(&calls[freei].c, 0, sizeof(simk_call_t));
  calls[freei].c.prev_all_again = 1;
  return &calls[freei].c;
}
void simk_call_begin(void) {
  simk_call_t* c = call_slot(1);
  if (c) {
    memset(c, 0, sizeof *c);
    c->prev_all_again = 1;
  }
}
void simk_call_end(simk_call_t* out) {
  void* k = call_key();
  for (int i = 0; i < MAXCALL; i++)
    if (calls[i].active && calls[i].key == k) {
      *out = calls[i].c;
      calls[i].active = 0;
      return;
    }
  memset(out, 0, sizeof *out);
}
static long note(long ret, int err, uint64_t off, int eof) {
  simk_call_t* c = call_slot(0);
  if (c) {
    if (c->n_under > 0 && !(c->last_ret < 0 && (c->last_errno == EAGAIN || c->last_errno == EINPROGRESS))) c->prev_all_again = 0;
    c->n_under++;
    c->last_ret = ret;
    c->last_errno = ret < 0 ? err : 0;
    c->last_off = off;
    c->kernel_eof = eof;
  }
  if (ret < 0) errno = err;
  return ret;
}

static long note_aux(long ret, int err) {
  if (ret < 0) errno = err;
  return ret;
}
void k_init(void) {
  memset(K, 0, sizeof K);
  K[0].kind = K[1].kind = K[2].kind = -1; /* real stdio: passthrough */
  timer_fd = -1;
}
int simk_pipe_capacity(void) { return cfg_cap; }
void simk_set_capacity(int cap) { cfg_cap = cap < 1 ? 1 : cap > KCAPMAX ? KCAPMAX : cap; }
static int kvalid(int fd) { return fd >= 3 && fd < KMAXFD && K[fd].kind > 0; }
int simk_fd_open(int fd) { return kvalid(fd); }
static int kalloc_fd(void) {
  for (int i = 3; i < KMAXFD; i++)
    if (K[i].kind == KF_FREE) {
      memset(&K[i], 0, sizeof K[i]);
      return i;
    }
  return -1;
}
static stream_t* new_stream(int is_pipe) {
  stream_t* s = sim_internal_alloc(sizeof *s);
  memset(s, 0, offsetof(stream_t, buf) + 0);
  s->cap = cfg_cap;
  s->len = s->head = 0;
  s->wclosed = s->rclosed = 0;
  s->is_pipe = is_pipe;
  s->roff = s->woff = 0;
  return s;
}
static int pipebuf(stream_t* s) { return s->cap < 8 ? s->cap : 8; }

/* connection resolution happens lazily */
static void mark_in(int fd);
static void k_advance(void) {
  for (int fd = 3; fd < KMAXFD; fd++)
    if (K[fd].kind == KF_CONNECTING && now_ns >= K[fd].connect_at) {
      kfd_t* k = &K[fd];
      int l = k->listener_fd;
      if (k->connect_fail || !(l >= 0 && K[l].kind == KF_LISTEN && K[l].port == k->port) || K[l].nbacklog >= 16) {
        k->so_error = ECONNREFUSED;
        k->kind = KF_UNCONN;
        k->pending = NULL;
        k->connect_at = 0;
        k->connect_fail = 2; /* failed: readable+writable+error */
      } else {
        conn_t* c = k->pending;
        k->kind = KF_SOCK;
        k->rx = &c->s2c;
        k->tx = &c->c2s;
        k->pending = NULL;
        K[l].backlog[K[l].nbacklog++] = c;
        mark_in(l);
      }
    }
}
static uint32_t readiness(int fd) {
  kfd_t* k = &K[fd];
  uint32_t r = 0;
  switch (k->kind) {
    case KF_TIMER:
      if (timer_interval && now_ns >= timer_next) r |= EPOLLIN;
      break;
    case KF_LISTEN:
      if (k->nbacklog > 0) r |= EPOLLIN;
      break;
    case KF_UNCONN:
      if (k->connect_fail == 2) r |= EPOLLIN | EPOLLOUT | EPOLLERR | EPOLLHUP;
      else r |= EPOLLOUT | EPOLLHUP;
      break;
    case KF_CONNECTING:
      break;
    case KF_PIPE_R:
    case KF_PIPE_W:
    case KF_SOCK:
      if (k->rx) {
        if (k->rx->len > 0) r |= EPOLLIN;
        if (k->rx->wclosed) r |= k->kind == KF_SOCK ? (EPOLLIN | EPOLLRDHUP) : (k->rx->len ? EPOLLIN | EPOLLHUP : EPOLLHUP);
      }
      if (k->tx) {
        if (k->tx->rclosed)
          r |= EPOLLOUT | EPOLLERR;
        else if (k->tx->is_pipe ? (k->tx->cap - k->tx->len >= pipebuf(k->tx)) : (k->tx->len < k->tx->cap))
          r |= EPOLLOUT;
      }
      if (k->kind == KF_SOCK && k->rx && k->tx && k->rx->wclosed && k->tx->rclosed) r |= EPOLLHUP;
      break;
    default:
      break;
  }
  return r;
}
/* readiness that epoll may report now, honouring delayed-report faults */
static uint32_t visible(int fd) {
  uint32_t r = readiness(fd);
  kfd_t* k = &K[fd];
  if ((r & (EPOLLIN | EPOLLRDHUP)) && now_ns < k->vis_in) r &= ~(EPOLLIN | EPOLLRDHUP);
  if ((r & EPOLLOUT) && now_ns < k->vis_out) r &= ~EPOLLOUT;
  if ((r & (EPOLLHUP | EPOLLERR)) && now_ns < k->vis_in && now_ns < k->vis_out) r &= ~(EPOLLHUP | EPOLLERR);
  return r;
}
static void mark_in(int fd) {
  if (fd < 0) return;
  uint64_t d = fault_draw(F_DELAY_REPORT, 6, 2 * TICK_NS / 1000);
  K[fd].vis_in = d ? now_ns + d * 1000 : 0;
}
static void mark_out(int fd) {
  if (fd < 0) return;
  uint64_t d = fault_draw(F_DELAY_REPORT, 6, 2 * TICK_NS / 1000);
  K[fd].vis_out = d ? now_ns + d * 1000 : 0;
}
/* find the fd whose rx (tx) is stream s */
static int fd_reading(stream_t* s) {
  for (int i = 3; i < KMAXFD; i++)
    if (K[i].kind > 0 && K[i].rx == s) return i;
  return -1;
}
static int fd_writing(stream_t* s) {
  for (int i = 3; i < KMAXFD; i++)
    if (K[i].kind > 0 && K[i].tx == s) return i;
  return -1;
}

/* ---------------- epoll ---------------- */
static int ep_collect(struct epoll_event* ev, int max, int consume) {
  int n = 0;
  k_advance();
  for (int fd = 3; fd < KMAXFD && n < max; fd++) {
    kfd_t* k = &K[fd];
    if (k->kind <= 0 || !k->ep_added || !k->ep_armed) continue;
    uint32_t r = visible(fd) & (k->ep_mask | EPOLLERR | EPOLLHUP);
    if (!r) continue;
    if (consume) {
      ev[n].events = r;
      ev[n].data.u64 = k->ep_data;
      if (k->ep_mask & EPOLLONESHOT) k->ep_armed = 0;
      th(0xE9011000ull + fd * 17 + r);
      TR("[%lu] t%d epoll reports fd %d events %x\n", g_steps, me, fd, r);
    }
    n++;
  }
  return n;
}
int k_epoll_ready_for(int tid) {
  (void)tid;
  return ep_collect(NULL, 64, 0) > 0;
}
uint64_t k_next_event_time(void) {
  uint64_t t = UINT64_MAX;
  for (int fd = 3; fd < KMAXFD; fd++) {
    kfd_t* k = &K[fd];
    if (k->kind <= 0) continue;
    if (k->kind == KF_CONNECTING && k->connect_at > now_ns && k->connect_at < t) t = k->connect_at;
    if (!k->ep_added || !k->ep_armed) continue;
    if (k->kind == KF_TIMER && timer_interval) {
      uint64_t tn = timer_next > now_ns ? timer_next : now_ns;
      if (tn < t) t = tn;
    }
    if (k->vis_in > now_ns && k->vis_in < t) t = k->vis_in;
    if (k->vis_out > now_ns && k->vis_out < t) t = k->vis_out;
  }
  return t;
}
int __wrap_epoll_create(int n) {
  (void)n;
  int fd = kalloc_fd();
  if (fd < 0) {
    errno = EMFILE;
    return -1;
  }
  K[fd].kind = KF_EPOLL;
  return fd;
}
int __wrap_epoll_create1(int fl) { return __wrap_epoll_create(fl); }
int __wrap_epoll_ctl(int ep, int op, int fd, struct epoll_event* e) {
  sim_sched_point(K_KERNEL);
  if (!kvalid(ep) || K[ep].kind != KF_EPOLL || !kvalid(fd)) {
    errno = EBADF;
    return -1;
  }
  kfd_t* k = &K[fd];
  if (op == EPOLL_CTL_ADD) {
    if (k->ep_added) {
      errno = EEXIST;
      return -1;
    }
    k->ep_added = 1;
  } else if (!k->ep_added) {
    errno = ENOENT;
    return -1;
  }
  if (op == EPOLL_CTL_DEL) {
    k->ep_added = 0;
    k->ep_armed = 0;
    return 0;
  }
  k->ep_mask = e->events;
  k->ep_data = e->data.u64;
  k->ep_armed = 1;
  simk_call_t* c = call_slot(0);
  if (c) c->waits++;
  TR("[%lu] t%d epoll_ctl %s fd %d mask %x\n", g_steps, me, op == EPOLL_CTL_ADD ? "ADD" : "MOD", fd, e->events);
  return 0;
}
int __wrap_epoll_wait(int ep, struct epoll_event* ev, int max, int timeout_ms) {
  sim_sched_point(K_KERNEL);
  if (!kvalid(ep) || K[ep].kind != KF_EPOLL) {
    errno = EBADF;
    return -1;
  }
  if (fault_draw(F_EINTR, 40, 1)) {
    errno = EINTR;
    return -1;
  }
  uint64_t deadline = timeout_ms < 0 ? UINT64_MAX : now_ns + (uint64_t)timeout_ms * 1000000ull;
  for (;;) {
    int lim = max;
    if (max > 1 && fault_draw(F_EV_FEWER, 10, 1)) lim = 1;
    int n = ep_collect(ev, lim, 1);
    if (n > 0 || timeout_ms == 0 || now_ns >= deadline) return n;
    ghost_idle_probe();
    T[me].st = ST_EPOLL;
    T[me].deadline = deadline;
    T[me].epfd = ep;
    block_me();
    T[me].st = ST_RUN;
  }
}

/* ---------------- timerfd ---------------- */
int __wrap_timerfd_create(int c, int f) {
  (void)c;
  (void)f;
  int fd = kalloc_fd();
  if (fd < 0) {
    errno = EMFILE;
    return -1;
  }
  K[fd].kind = KF_TIMER;
  K[fd].nonblock = 1;
  timer_fd = fd;
  return fd;
}
int __wrap_timerfd_settime(int fd, int fl, const struct itimerspec* n, struct itimerspec* o) {
  (void)fl;
  if (!kvalid(fd) || K[fd].kind != KF_TIMER) {
    errno = EBADF;
    return -1;
  }
  if (o) memset(o, 0, sizeof *o);
  timer_interval = n->it_interval.tv_sec * 1000000000ull + n->it_interval.tv_nsec;
  timer_next = now_ns + n->it_value.tv_sec * 1000000000ull + n->it_value.tv_nsec;
  return 0;
}
/* RLIMIT_NOFILE: hard limit 64 (the size of the kernel stub's descriptor table); the soft limit is 64 too unless
 * the harness lowers it - an application may raise its soft limit up to the hard one at any time, so descriptors
 * between the two are as valid as any */
static int soft_fd_limit = KMAXFD;
void simk_set_soft_fd_limit(int n) { soft_fd_limit = n < 8 ? 8 : n > KMAXFD ? KMAXFD : n; }
int __wrap_getrlimit(int r, struct rlimit* l) {
  (void)r;
  l->rlim_cur = soft_fd_limit;
  l->rlim_max = KMAXFD;
  return 0;
}

/* ---------------- descriptor I/O ---------------- */
static void block_thread_until(int fd, uint32_t what) { /* only for descriptors left in blocking mode */
  /* C08: a blocking call suspends only the calling fiber. Under the fiber runtime every descriptor that came
   * from a shim is non-blocking underneath; reaching this point means the whole kernel thread is about to
   * sleep in the kernel with the fibers queued behind it */
  if (fiber_mode && !(readiness(fd) & (what | EPOLLHUP | EPOLLERR)))
    sim_violation("C08-kernel-thread-blocked", "descriptor %d was left in blocking mode underneath: the call blocks the kernel thread, not just the calling fiber", fd);
  while (!(readiness(fd) & (what | EPOLLHUP | EPOLLERR))) {
    T[me].st = ST_SLEEP;
    T[me].deadline = now_ns + 1000000;
    block_me();
    T[me].st = ST_RUN;
    k_advance();
  }
}
static ssize_t k_read_iov(int fd, const struct iovec* iov, int cnt) {
  sim_sched_point(K_KERNEL);
  k_advance();
  if (fd >= 0 && fd <= 2) {
    long r = syscall(SYS_readv, fd, iov, cnt);
    return r;
  }
  if (!kvalid(fd)) return note(-1, EBADF, 0, 0);
  kfd_t* k = &K[fd];
  size_t want = 0;
  for (int i = 0; i < cnt; i++) want += iov[i].iov_len;
  if (k->kind == KF_TIMER) {
    if (!(timer_interval && now_ns >= timer_next)) return note(-1, EAGAIN, 0, 0);
    if (want < 8) return note(-1, EINVAL, 0, 0);
    uint64_t n = (now_ns - timer_next) / timer_interval + 1;
    timer_next += n * timer_interval;
    memcpy(iov[0].iov_base, &n, 8);
    if (n > 1) sim_probe("timer_coalesced", 1);
    TR("[%lu] t%d timerfd read -> %lu expirations\n", g_steps, me, n);
    sim_internal_timer_was_read();
    return 8;
  }
  if (k->kind == KF_UNCONN || k->kind == KF_CONNECTING || k->kind == KF_LISTEN) return note(-1, k->kind == KF_LISTEN ? EINVAL : ENOTCONN, 0, 0);
  if (k->kind == KF_EPOLL || !k->rx) return note(-1, k->kind == KF_PIPE_W ? EBADF : EINVAL, 0, 0);
  stream_t* s = k->rx;
  if (want == 0) return note(0, 0, s->roff, 0);
  if (s->len == 0) {
    if (s->wclosed) return note(0, 0, s->roff, 1);
    if (!k->nonblock) block_thread_until(fd, EPOLLIN);
    if (s->len == 0) {
      if (s->wclosed) return note(0, 0, s->roff, 1);
      return note(-1, EAGAIN, 0, 0);
    }
  }
  if (fault_draw(F_SPURIOUS, 12, 1)) return note(-1, EAGAIN, 0, 0);
  size_t n = want < (size_t)s->len ? want : (size_t)s->len;
  if (n > 1) {
    uint64_t v = fault_draw(F_SHORT_IO, 4, n - 1);
    if (v) n = v;
  }
  int was_full = s->is_pipe ? (s->cap - s->len < pipebuf(s)) : (s->len >= s->cap);
  uint64_t off = s->roff;
  size_t done = 0;
  for (int i = 0; i < cnt && done < n; i++) {
    size_t take = iov[i].iov_len < n - done ? iov[i].iov_len : n - done;
    for (size_t j = 0; j < take; j++) {
      ((uint8_t*)iov[i].iov_base)[j] = s->buf[s->head];
      s->head = (s->head + 1) % KCAPMAX;
    }
    done += take;
  }
  s->len -= n;
  s->roff += n;
  int now_full = s->is_pipe ? (s->cap - s->len < pipebuf(s)) : (s->len >= s->cap);
  if (was_full && !now_full) mark_out(fd_writing(s));
  th(0x4EAD0000ull + fd * 1009 + n);
  TR("[%lu] t%d read fd %d -> %zu bytes @%lu\n", g_steps, me, fd, n, off);
  return note(n, 0, off, 0);
}
static ssize_t k_write_iov(int fd, const struct iovec* iov, int cnt) {
  sim_sched_point(K_KERNEL);
  k_advance();
  if (fd >= 0 && fd <= 2) return syscall(SYS_writev, fd, iov, cnt);
  if (!kvalid(fd)) return note(-1, EBADF, 0, 0);
  kfd_t* k = &K[fd];
  if (k->kind == KF_UNCONN || k->kind == KF_CONNECTING) return note(-1, k->kind == KF_UNCONN ? EPIPE : ENOTCONN, 0, 0);
  if (k->kind == KF_EPOLL || k->kind == KF_TIMER || k->kind == KF_LISTEN || !k->tx) return note(-1, k->kind == KF_PIPE_R ? EBADF : EINVAL, 0, 0);
  stream_t* s = k->tx;
  size_t want = 0;
  for (int i = 0; i < cnt; i++) want += iov[i].iov_len;
  if (s->rclosed) return note(-1, s->is_pipe ? EPIPE : ECONNRESET, 0, 0);
  if (want == 0) return note(0, 0, s->woff, 0);
  size_t room = s->cap - s->len;
  int atomic_w = s->is_pipe && want <= (size_t)pipebuf(s);
  if (room == 0 || (atomic_w && room < want)) {
    if (!k->nonblock) {
      block_thread_until(fd, EPOLLOUT);
      room = s->cap - s->len;
      if (s->rclosed) return note(-1, s->is_pipe ? EPIPE : ECONNRESET, 0, 0);
    }
    if (room == 0 || (atomic_w && room < want)) return note(-1, EAGAIN, 0, 0);
  }
  if (fault_draw(F_SPURIOUS, 12, 1)) return note(-1, EAGAIN, 0, 0);
  size_t n = want < room ? want : room;
  if (n > 1 && !atomic_w) {
    uint64_t v = fault_draw(F_SHORT_IO, 4, n - 1);
    if (v) n = v;
  }
  int was_empty = s->len == 0;
  uint64_t off = s->woff;
  size_t done = 0;
  int tail = (s->head + s->len) % KCAPMAX;
  for (int i = 0; i < cnt && done < n; i++) {
    size_t take = iov[i].iov_len < n - done ? iov[i].iov_len : n - done;
    for (size_t j = 0; j < take; j++) {
      s->buf[tail] = ((const uint8_t*)iov[i].iov_base)[j];
      tail = (tail + 1) % KCAPMAX;
    }
    done += take;
  }
  s->len += n;
  s->woff += n;
  if (was_empty) mark_in(fd_reading(s));
  th(0x3417E000ull + fd * 1013 + n);
  TR("[%lu] t%d write fd %d -> %zu bytes @%lu\n", g_steps, me, fd, n, off);
  return note(n, 0, off, 0);
}
static ssize_t k_read(int fd, void* buf, size_t n) {
  struct iovec v = {buf, n};
  return k_read_iov(fd, &v, 1);
}
static ssize_t k_write(int fd, const void* buf, size_t n) {
  struct iovec v = {(void*)buf, n};
  return k_write_iov(fd, &v, 1);
}
static ssize_t k_readv(int fd, const struct iovec* iov, int cnt) { return k_read_iov(fd, iov, cnt); }
static ssize_t k_writev(int fd, const struct iovec* iov, int cnt) { return k_write_iov(fd, iov, cnt); }
static int is_sock(int fd) { return kvalid(fd) && (K[fd].kind == KF_SOCK || K[fd].kind == KF_UNCONN || K[fd].kind == KF_CONNECTING || K[fd].kind == KF_LISTEN); }
static ssize_t k_recv(int fd, void* buf, size_t n, int flags) {
  (void)flags;
  if (kvalid(fd) && !is_sock(fd)) {
    sim_sched_point(K_KERNEL);
    return note(-1, ENOTSOCK, 0, 0);
  }
  return k_read(fd, buf, n);
}
static ssize_t k_recvfrom(int fd, void* buf, size_t n, int flags, struct sockaddr* a, socklen_t* al) {
  if (al) *al = 0;
  (void)a;
  return k_recv(fd, buf, n, flags);
}
static ssize_t k_recvmsg(int fd, struct msghdr* m, int flags) {
  (void)flags;
  if (kvalid(fd) && !is_sock(fd)) {
    sim_sched_point(K_KERNEL);
    return note(-1, ENOTSOCK, 0, 0);
  }
  m->msg_flags = 0;
  m->msg_controllen = 0;
  return k_read_iov(fd, m->msg_iov, (int)m->msg_iovlen);
}
static ssize_t k_send(int fd, const void* buf, size_t n, int flags) {
  (void)flags;
  if (kvalid(fd) && !is_sock(fd)) {
    sim_sched_point(K_KERNEL);
    return note(-1, ENOTSOCK, 0, 0);
  }
  return k_write(fd, buf, n);
}
static ssize_t k_sendto(int fd, const void* buf, size_t n, int flags, const struct sockaddr* a, socklen_t al) {
  (void)a;
  (void)al;
  return k_send(fd, buf, n, flags);
}
static ssize_t k_sendmsg(int fd, const struct msghdr* m, int flags) {
  (void)flags;
  if (kvalid(fd) && !is_sock(fd)) {
    sim_sched_point(K_KERNEL);
    return note(-1, ENOTSOCK, 0, 0);
  }
  return k_write_iov(fd, m->msg_iov, (int)m->msg_iovlen);
}
static int k_pipe(int p[2]) {
  sim_sched_point(K_KERNEL);
  int r = kalloc_fd();
  if (r < 0) {
    errno = EMFILE;
    return -1;
  }
  K[r].kind = KF_PIPE_R;
  int w = kalloc_fd();
  if (w < 0) {
    K[r].kind = KF_FREE;
    errno = EMFILE;
    return -1;
  }
  K[w].kind = KF_PIPE_W;
  stream_t* s = new_stream(1);
  K[r].rx = s;
  K[w].tx = s;
  p[0] = r;
  p[1] = w;
  return 0;
}
static int k_socket(int d, int t, int pr) {
  (void)d;
  (void)pr;
  sim_sched_point(K_KERNEL);
  int fd = kalloc_fd();
  if (fd < 0) {
    errno = EMFILE;
    return -1;
  }
  K[fd].kind = KF_UNCONN;
  K[fd].listener_fd = -1;
  if (t & SOCK_NONBLOCK) K[fd].nonblock = 1;
  return fd;
}
static int k_socketpair(int d, int t, int pr, int sv[2]) {
  (void)d;
  (void)pr;
  sim_sched_point(K_KERNEL);
  int a = kalloc_fd();
  if (a < 0) {
    errno = EMFILE;
    return -1;
  }
  K[a].kind = KF_SOCK;
  int b = kalloc_fd();
  if (b < 0) {
    K[a].kind = KF_FREE;
    errno = EMFILE;
    return -1;
  }
  K[b].kind = KF_SOCK;
  if (t & SOCK_NONBLOCK) K[a].nonblock = K[b].nonblock = 1;
  conn_t* c = sim_internal_alloc(sizeof *c);
  memset(c, 0, offsetof(conn_t, c2s.buf));
  stream_t *x = new_stream(0), *y = new_stream(0);
  (void)c;
  K[a].rx = x;
  K[a].tx = y;
  K[b].rx = y;
  K[b].tx = x;
  sv[0] = a;
  sv[1] = b;
  return 0;
}
int simk_listen(int fd, int port) {
  if (!kvalid(fd) || K[fd].kind != KF_UNCONN) {
    errno = EBADF;
    return -1;
  }
  K[fd].kind = KF_LISTEN;
  K[fd].port = port;
  return 0;
}
static void init_stream(stream_t* s) {
  s->cap = cfg_cap;
  s->len = s->head = 0;
  s->wclosed = s->rclosed = 0;
  s->is_pipe = 0;
  s->roff = s->woff = 0;
}
static int k_connect(int fd, const struct sockaddr* addr, socklen_t al) {
  sim_sched_point(K_KERNEL);
  k_advance();
  if (!kvalid(fd)) return (int)note(-1, EBADF, 0, 0);
  kfd_t* k = &K[fd];
  if (k->kind == KF_SOCK) return (int)note(-1, EISCONN, 0, 0);
  if (k->kind == KF_CONNECTING) return (int)note(-1, EALREADY, 0, 0);
  if (k->kind != KF_UNCONN) return (int)note(-1, ENOTSOCK, 0, 0);
  if (!addr || al < sizeof(struct sockaddr_in)) return (int)note(-1, EINVAL, 0, 0);
  int port = ntohs(((const struct sockaddr_in*)addr)->sin_port);
  int l = -1;
  for (int i = 3; i < KMAXFD; i++)
    if (K[i].kind == KF_LISTEN && K[i].port == port) l = i;
  if (l < 0) return (int)note(-1, ECONNREFUSED, 0, 0);
  conn_t* c = sim_internal_alloc(sizeof *c);
  init_stream(&c->c2s);
  init_stream(&c->s2c);
  c->client_fd = fd;
  c->client_closed = 0;
  c->serial = ++conn_serial;
  k->pending = c;
  k->listener_fd = l;
  k->port = port;
  k->so_error = 0;
  k->connect_fail = 0;
  uint64_t slow = fault_draw(F_CONNECT_SLOW, 2, 3 * TICK_NS / 1000);
  uint64_t fail = fault_draw(F_CONNECT_FAIL, 5, 2 * TICK_NS / 1000);
  if ((fail || slow) && !k->nonblock && fiber_mode)
    sim_violation("C08-kernel-thread-blocked", "socket %d was left in blocking mode underneath: connect blocks the kernel thread, not just the calling fiber", fd);
  if (fail) {
    k->kind = KF_CONNECTING;
    k->connect_fail = 1;
    k->connect_at = now_ns + fail * 1000;
    return (int)note(-1, EINPROGRESS, 0, 0);
  }
  if (slow) {
    k->kind = KF_CONNECTING;
    k->connect_at = now_ns + slow * 1000;
    return (int)note(-1, EINPROGRESS, 0, 0);
  }
  k->kind = KF_CONNECTING;
  k->connect_at = now_ns;
  k_advance();
  if (k->kind != KF_SOCK) return (int)note(-1, ECONNREFUSED, 0, 0);
  return (int)note(0, 0, 0, 0);
}
static int k_accept(int fd, struct sockaddr* a, socklen_t* al) {
  sim_sched_point(K_KERNEL);
  k_advance();
  (void)a;
  if (al) *al = 0;
  if (!kvalid(fd)) return (int)note(-1, EBADF, 0, 0);
  kfd_t* k = &K[fd];
  if (k->kind != KF_LISTEN) return (int)note(-1, is_sock(fd) ? EINVAL : ENOTSOCK, 0, 0);
  if (k->nbacklog == 0) {
    if (!k->nonblock && fiber_mode)
      sim_violation("C08-kernel-thread-blocked", "listening descriptor %d was left in blocking mode underneath: accept blocks the kernel thread, not just the calling fiber", fd);
    return (int)note(-1, EAGAIN, 0, 0);
  }
  if (fault_draw(F_SPURIOUS, 12, 1)) return (int)note(-1, EAGAIN, 0, 0);
  int nfd = kalloc_fd();
  if (nfd < 0) return (int)note(-1, EMFILE, 0, 0);
  conn_t* c = k->backlog[0];
  memmove(&k->backlog[0], &k->backlog[1], sizeof(k->backlog[0]) * (k->nbacklog - 1));
  k->nbacklog--;
  K[nfd].kind = KF_SOCK;
  K[nfd].rx = &c->c2s;
  K[nfd].tx = &c->s2c;
  th(0xACCE9700ull + nfd);
  TR("[%lu] t%d accept on fd %d -> fd %d (client fd %d)\n", g_steps, me, fd, nfd, c->client_fd);
  return (int)note(nfd, 0, (uint64_t)c->serial, 0);
}
static int k_close(int fd) {
  sim_sched_point(K_KERNEL);
  if (fd >= 0 && fd <= 2) return 0;
  if (!kvalid(fd)) return (int)note_aux(-1, EBADF);
  kfd_t* k = &K[fd];
  TR("[%lu] t%d close fd %d\n", g_steps, me, fd);
  if (k->kind == KF_TIMER) timer_interval = 0;
  if (k->tx) {
    k->tx->wclosed = 1;
    mark_in(fd_reading(k->tx) == fd ? -1 : fd_reading(k->tx));
  }
  if (k->rx) {
    k->rx->rclosed = 1;
    mark_out(fd_writing(k->rx) == fd ? -1 : fd_writing(k->rx));
  }
  if (k->kind == KF_CONNECTING && k->pending) k->pending->client_closed = 1;
  if (k->kind == KF_LISTEN)
    for (int i = 0; i < k->nbacklog; i++) {
      k->backlog[i]->c2s.rclosed = 1;
      k->backlog[i]->s2c.wclosed = 1;
    }
  memset(k, 0, sizeof *k);
  return (int)note_aux(0, 0);
}
static int k_fcntl(int fd, int cmd, long val) {
  sim_sched_point(K_KERNEL);
  if (!kvalid(fd)) return (int)note_aux(-1, EBADF);
  switch (cmd) {
    case F_GETFL:
      return (int)note_aux((K[fd].kind == KF_PIPE_R ? O_RDONLY : K[fd].kind == KF_PIPE_W ? O_WRONLY : O_RDWR) | (K[fd].nonblock ? O_NONBLOCK : 0), 0);
    case F_SETFL:
      K[fd].nonblock = (val & O_NONBLOCK) != 0;
      return (int)note_aux(0, 0);
    case F_GETFD:
    case F_SETFD:
      return (int)note_aux(0, 0);
    default:
      return (int)note_aux(-1, EINVAL);
  }
}
static int k_ioctl(int fd, unsigned long req, void* val) {
  sim_sched_point(K_KERNEL);
  if (!kvalid(fd)) return (int)note_aux(-1, EBADF);
  if (req == FIONBIO) {
    K[fd].nonblock = val && *(int*)val;
    return (int)note_aux(0, 0);
  }
  if (req == FIONREAD) {
    if (val) *(int*)val = K[fd].rx ? K[fd].rx->len : 0;
    return (int)note_aux(0, 0);
  }
  return (int)note_aux(-1, ENOTTY);
}
int __wrap_setsockopt(int fd, int lvl, int opt, const void* v, socklen_t l) {
  (void)lvl;
  (void)opt;
  (void)v;
  (void)l;
  if (!kvalid(fd)) {
    errno = EBADF;
    return -1;
  }
  if (!is_sock(fd)) {
    errno = ENOTSOCK;
    return -1;
  }
  return 0;
}
int __wrap_getsockopt(int fd, int lvl, int opt, void* v, socklen_t* l) {
  (void)lvl;
  sim_sched_point(K_KERNEL);
  k_advance();
  if (!kvalid(fd)) {
    errno = EBADF;
    return -1;
  }
  if (!is_sock(fd)) {
    errno = ENOTSOCK;
    return -1;
  }
  if (opt == SO_ERROR && v && l && *l >= sizeof(int)) {
    *(int*)v = K[fd].so_error;
    K[fd].so_error = 0;
    if (K[fd].connect_fail == 2) K[fd].connect_fail = 0;
    *l = sizeof(int);
    return 0;
  }
  errno = ENOPROTOOPT;
  return -1;
}
/* C09: "other fibers on the same kernel thread keep running while it sleeps". The real sleep calls block the
 * whole kernel thread; under the fiber runtime they are only legitimate on a thread that the application has
 * locked with fiber_io_lock_thread() (the harness reports that), or during shutdown (never simulated) */
static int thread_locked_note[MAXT];
void simk_thread_locked(int on) {
  if (me >= 0) thread_locked_note[me] = on;
}
static void real_sleep_check(const char* what) {
  if (fiber_mode && me >= 0 && !thread_locked_note[me])
    sim_violation("C09-kernel-thread-blocked", "%s reached the real (thread-blocking) call on kernel thread %d, which is not locked: every fiber of that thread stops for the duration", what, me);
}
static int k_usleep(unsigned us) {
  if (!sim_active || me < 0) return 0;
  real_sleep_check("usleep/sleep");
  T[me].st = ST_SLEEP;
  T[me].deadline = now_ns + (uint64_t)us * 1000;
  block_me();
  T[me].st = ST_RUN;
  return 0;
}
static unsigned k_sleep(unsigned s) {
  k_usleep(s * 1000000u);
  return 0;
}
static int k_nanosleep(const struct timespec* rq, struct timespec* rm) {
  if (rm) memset(rm, 0, sizeof *rm);
  if (!sim_active || me < 0) return 0;
  real_sleep_check("nanosleep");
  T[me].st = ST_SLEEP;
  T[me].deadline = now_ns + (uint64_t)rq->tv_sec * 1000000000ull + rq->tv_nsec;
  block_me();
  T[me].st = ST_RUN;
  return 0;
}
uint64_t simk_stream_written(int fd) { return kvalid(fd) && K[fd].tx ? K[fd].tx->woff : 0; }
uint64_t simk_stream_read(int fd) { return kvalid(fd) && K[fd].rx ? K[fd].rx->roff : 0; }
int simk_fd_ready_in(int fd) { return kvalid(fd) && (readiness(fd) & (EPOLLIN | EPOLLHUP)); }

void* __real_dlsym(void*, const char*);
void* k_dlsym(const char* name) {
  static const struct {
    const char* n;
    void* f;
  } tab[] = {{"pipe", (void*)k_pipe},         {"read", (void*)k_read},       {"readv", (void*)k_readv},       {"write", (void*)k_write},
             {"writev", (void*)k_writev},     {"socket", (void*)k_socket},   {"socketpair", (void*)k_socketpair}, {"connect", (void*)k_connect},
             {"accept", (void*)k_accept},     {"send", (void*)k_send},       {"sendto", (void*)k_sendto},     {"sendmsg", (void*)k_sendmsg},
             {"recv", (void*)k_recv},         {"recvfrom", (void*)k_recvfrom}, {"recvmsg", (void*)k_recvmsg}, {"close", (void*)k_close},
             {"fcntl", (void*)k_fcntl},       {"ioctl", (void*)k_ioctl},     {"usleep", (void*)k_usleep},     {"sleep", (void*)k_sleep},
             {"nanosleep", (void*)k_nanosleep}};
  for (size_t i = 0; i < sizeof tab / sizeof tab[0]; i++)
    if (!strcmp(tab[i].n, name)) return tab[i].f;
  return NULL;
}
void* __wrap_dlsym(void* h, const char* name) {
  if (sim_active) {
    void* f = k_dlsym(name);
    if (f) return f;
  }
  return __real_dlsym(h, name);
}
