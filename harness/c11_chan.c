/* C11 - channels and signals: every message delivered once, in order, capacity respected, no stranded peer */
#include <unistd.h>

#include "common.h"
#include "fiber_manager.h"
#include "fiber_channel.h"
#undef _FIBER_CHANNEL_H_ /* upstream uses the same include guard for both channel headers */
#include "fiber_multi_channel.h"

const char* const H_NAME = "c11_chan";
const char* const H_PROPERTY = "C11";

#define MAXS 3
#define MAXR 3
#define MAXMSG 8
enum { K_BOUNDED_SIG = 0, K_BOUNDED_SPIN, K_UNBOUNDED, K_UNBOUNDED_SP, K_MULTI, K_RAW_SIGNAL, K_NKINDS };
static int kind, nsend, nrecv, per[MAXS], rquota[MAXR], cap, yield_s, yield_r;
static fiber_signal_t* sig_p; /* heap memory with arbitrary previous contents */
#define sig (*sig_p)
static fiber_bounded_channel_t* bch;
static fiber_unbounded_channel_t* uch_p;
static fiber_unbounded_sp_channel_t* spch_p;
#define uch (*uch_p)
#define spch (*spch_p)
static fiber_multi_channel_t* mch;
/* ghosts */
static unsigned char sent_begun[MAXS][MAXMSG + 1], received[MAXS][MAXMSG + 1];
static int last_seq[MAXS];
static int sends_done, recv_begun, recv_done, total;
static int blocked_seen;

#define MKID(s, q) ((long)(((s) + 1) << 8 | ((q) + 1)))
static NS void g_send_begin(int s, int q) {
  sent_begun[s][q] = 1;
  sim_trace("sender %d begins send %d", s, q);
}
static NS void g_send_done(void) {
  sends_done++;
  sim_trace("send returned (%d done)", sends_done);
  if ((kind == K_BOUNDED_SIG || kind == K_BOUNDED_SPIN || kind == K_MULTI) && sends_done - recv_begun > cap)
    sim_violation("C11-over-capacity", "%d sends have returned but only %d receives were invoked: capacity %d exceeded", sends_done, recv_begun, cap);
  sim_progress();
}
static NS void g_recv_begin(void) {
  recv_begun++;
  sim_trace("receive %d begins", recv_begun);
}
static NS void g_recv(long id, int strict_order) {
  int s = (int)(id >> 8) - 1, q = (int)(id & 0xff) - 1;
  if (s < 0 || s >= nsend || q < 0 || q >= per[s] || !sent_begun[s][q]) sim_violation("C11-invented-message", "received %#lx which was never sent", id);
  if (received[s][q]) sim_violation("C11-duplicate", "message %d of sender %d received twice", q, s);
  received[s][q] = 1;
  sim_trace("received message %d of sender %d", q, s);
  if (strict_order && q != last_seq[s]) sim_violation("C11-out-of-order", "sender %d: message %d received when %d was expected", s, q, last_seq[s]);
  if (q >= last_seq[s]) last_seq[s] = q + 1;
  recv_done++;
  sim_progress();
}
static int try_mode;
static NS void g_try_failed(void) { recv_begun--; } /* a try that found nothing has taken nothing */
static NS int g_sw(void) { return sim_fiber_switch_ins(sim_current_fiber()); }
static NS void g_blocked(int before) {
  if (sim_fiber_switch_ins(sim_current_fiber()) != before && !blocked_seen) {
    blocked_seen = 1;
    sim_nontrivial();
  }
}

static void* sender(void* p) {
  const int s = (int)(intptr_t)p;
  for (int q = 0; q < per[s]; q++) {
    g_send_begin(s, q);
    int sw = g_sw();
    switch (kind) {
      case K_BOUNDED_SIG:
      case K_BOUNDED_SPIN:
        fiber_bounded_channel_send(bch, (void*)MKID(s, q));
        break;
      case K_UNBOUNDED: {
        fiber_unbounded_channel_message_t* m = malloc(sizeof *m);
        m->data = (void*)MKID(s, q);
        fiber_unbounded_channel_send(&uch, m);
        break;
      }
      case K_UNBOUNDED_SP: {
        fiber_unbounded_sp_channel_message_t* m = malloc(sizeof *m);
        m->data = (void*)MKID(s, q);
        fiber_unbounded_sp_channel_send(&spch, m);
        break;
      }
      default:
        fiber_multi_channel_send(mch, (void*)MKID(s, q));
    }
    g_blocked(sw);
    g_send_done();
    if (yield_s) RS0(fiber_yield);
  }
  return NULL;
}
/* optionally the receiver goes through another suspension mechanism between two receives: it blocks on a
 * descriptor that a helper fiber closes (the mechanisms share per-fiber scratch state) */
static int pre_fd_wait, fdw_fd[2];
static volatile int fdw_in, fdw_done;
static fiber_t* fdw_fiber;
static NS int g_fdw_blocked(void) { return fdw_in && sim_fiber_lib_state(fdw_fiber) == FIBER_STATE_WAITING && sim_fiber_is_saved(fdw_fiber); }
static void* fd_closer(void* p) {
  (void)p;
  while (!fdw_done) {
    if (g_fdw_blocked()) {
      fdw_in = 0;
      close(fdw_fd[0]);
    }
    RS0(fiber_yield);
  }
  return NULL;
}
static void fd_wait_once(void) {
  unsigned char b[2];
  if (pipe(fdw_fd)) sim_violation("SIM-pipe", "pipe failed");
  fdw_in = 1;
  sim_trace("receiver waits on fd %d", fdw_fd[0]);
  ssize_t r = read(fdw_fd[0], b, 1); /* resumed by the helper's close() */
  sim_trace("receiver's read returned %zd", r);
  fdw_in = 0;
  close(fdw_fd[1]);
}
static void* receiver(void* p) {
  const int r = (int)(intptr_t)p;
  for (int i = 0; i < rquota[r]; i++) {
    long id;
    if (pre_fd_wait && r == 0 && i < 2) fd_wait_once();
    g_recv_begin();
    int sw = g_sw();
    if (try_mode) {
      /* the non-blocking receive calls, polled with a yield in between: same messages, same order */
      void* got = NULL;
      for (;;) {
        if (kind == K_BOUNDED_SIG || kind == K_BOUNDED_SPIN) {
          if (fiber_bounded_channel_try_receive(bch, &got)) break;
        } else if (kind == K_UNBOUNDED) {
          fiber_unbounded_channel_message_t* m = fiber_unbounded_channel_try_receive(&uch);
          if (m) {
            got = m->data;
            free(m);
            break;
          }
        } else {
          fiber_unbounded_sp_channel_message_t* m = fiber_unbounded_sp_channel_try_receive(&spch);
          if (m) {
            got = m->data;
            free(m);
            break;
          }
        }
        g_try_failed();
        RS0(fiber_yield);
        g_recv_begin();
      }
      g_recv((long)got, nrecv == 1);
      if (yield_r) RS0(fiber_yield);
      continue;
    }
    switch (kind) {
      case K_BOUNDED_SIG:
      case K_BOUNDED_SPIN:
        id = (long)fiber_bounded_channel_receive(bch);
        break;
      case K_UNBOUNDED: {
        fiber_unbounded_channel_message_t* m = fiber_unbounded_channel_receive(&uch);
        id = (long)m->data;
        free(m);
        break;
      }
      case K_UNBOUNDED_SP: {
        fiber_unbounded_sp_channel_message_t* m = fiber_unbounded_sp_channel_receive(&spch);
        id = (long)m->data;
        free(m);
        break;
      }
      default:
        id = (long)fiber_multi_channel_receive(mch);
    }
    g_blocked(sw);
    g_recv(id, nrecv == 1);
    if (yield_r) RS0(fiber_yield);
  }
  return NULL;
}
/* ---- raw signal: one waiter, several raisers ---- */
static _Atomic int produced;
static int raises_invoked, wait_returns;
static NS void g_raise(void) { raises_invoked++; }
static NS void g_wait_returned(void) {
  wait_returns++;
  if (wait_returns > raises_invoked) sim_violation("C11-signal-from-nothing", "%d waits have returned but only %d raises were invoked", wait_returns, raises_invoked);
  sim_progress();
}
static void* raiser(void* p) {
  const int s = (int)(intptr_t)p;
  for (int q = 0; q < per[s]; q++) {
    atomic_fetch_add(&produced, 1);
    g_raise();
    fiber_signal_raise(&sig);
    sim_progress();
    if (yield_s) RS0(fiber_yield);
  }
  return NULL;
}
static void* waiter(void* p) {
  (void)p;
  int seen = 0;
  if (pre_fd_wait) fd_wait_once();
  while (seen < total) {
    int pr = atomic_load(&produced);
    if (pr > seen) {
      seen = pr;
      sim_progress();
      continue;
    }
    int sw = g_sw();
    fiber_signal_wait(&sig); /* a raise between the load above and this wait must be remembered */
    g_blocked(sw);
    g_wait_returned();
  }
  return NULL;
}
void h_run(void) {
  sim_cfg_t c = sim_config(1, 4, 0, FBIT(F_STALL));
  kind = wl_pick(K_NKINDS);
  nsend = kind == K_UNBOUNDED_SP ? 1 : wl_int(1, MAXS);
  nrecv = kind == K_MULTI ? wl_int(1, MAXR) : 1;
  int p2 = wl_int(1, kind == K_MULTI ? 2 : 3);
  cap = 1 << p2;
  yield_s = wl_pct(40);
  yield_r = wl_pct(40);
  pre_fd_wait = wl_pct(20);
  try_mode = (kind == K_BOUNDED_SIG || kind == K_BOUNDED_SPIN || kind == K_UNBOUNDED || kind == K_UNBOUNDED_SP) && wl_pct(25);
  total = 0;
  const int maxmsg = sim_tier_thorough() ? MAXMSG : 5;
  for (int s = 0; s < nsend; s++) {
    per[s] = wl_int(1, maxmsg);
    total += per[s];
  }
  int left = total;
  for (int r = 0; r < nrecv; r++) {
    rquota[r] = r == nrecv - 1 ? left : wl_int(0, left);
    left -= rquota[r];
  }
  static const char* const kn[] = {"bounded+signal", "bounded(spin)", "unbounded", "unbounded-sp", "multi", "raw-signal"};
  sim_describe("threads=%d %s senders=%d receivers=%d capacity=%d messages=%d yield_s=%d yield_r=%d fd_wait_first=%d try_receive=%d preempt=1/%d", c.threads, kn[kind], nsend, nrecv, cap, total, yield_s, yield_r, pre_fd_wait, try_mode, c.preempt_inv);
  sim_fiber_mode();
  fiber_manager_init(c.threads);
  sig_p = h_dirty_alloc(sizeof *sig_p);
  uch_p = h_dirty_alloc(sizeof *uch_p);
  spch_p = h_dirty_alloc(sizeof *spch_p);
  fiber_signal_init(&sig);
  switch (kind) {
    case K_BOUNDED_SIG:
      bch = fiber_bounded_channel_create(p2, &sig);
      break;
    case K_BOUNDED_SPIN:
      bch = fiber_bounded_channel_create(p2, NULL);
      break;
    case K_UNBOUNDED:
      fiber_unbounded_channel_init(&uch, &sig);
      break;
    case K_UNBOUNDED_SP:
      fiber_unbounded_sp_channel_init(&spch, &sig);
      break;
    case K_MULTI:
      mch = fiber_multi_channel_create(p2);
      break;
  }
  /* "for all message counts": the channel's running positions start where 2^32 (or 2^33) earlier messages would
   * have left them, a few slots before the boundary */
  if ((kind == K_BOUNDED_SIG || kind == K_BOUNDED_SPIN || kind == K_MULTI) && wl_pct(25)) {
    const uint64_t start = ((uint64_t)wl_int(1, 2) << 32) - (uint64_t)wl_int(0, 6);
    if (kind == K_MULTI) mch->high = mch->low = start;
    else bch->high = bch->low = start;
    sim_probe("positions_preset", 1);
  }
  fiber_t* f[MAXS + MAXR + 1];
  int n = 0;
  int recv_first = wl_pct(50);
  if (recv_first)
    for (int r = 0; r < nrecv; r++) {
      f[n++] = fiber_create(STK, kind == K_RAW_SIGNAL ? waiter : receiver, (void*)(intptr_t)r);
      if (r == 0) fdw_fiber = f[n - 1];
    }
  for (int s = 0; s < nsend; s++) f[n++] = fiber_create(STK, kind == K_RAW_SIGNAL ? raiser : sender, (void*)(intptr_t)s);
  if (!recv_first)
    for (int r = 0; r < nrecv; r++) {
      f[n++] = fiber_create(STK, kind == K_RAW_SIGNAL ? waiter : receiver, (void*)(intptr_t)r);
      if (r == 0) fdw_fiber = f[n - 1];
    }
  fiber_t* closer = pre_fd_wait ? fiber_create(STK, fd_closer, NULL) : NULL;
  for (int i = 0; i < n; i++) fiber_join(f[i], NULL);
  fdw_done = 1;
  if (closer) fiber_join(closer, NULL);
  if (kind != K_RAW_SIGNAL) {
    if (recv_done != total) sim_violation("C11-lost-message", "%d of %d messages received", recv_done, total);
    for (int s = 0; s < nsend; s++)
      for (int q = 0; q < per[s]; q++)
        if (!received[s][q]) sim_violation("C11-lost-message", "message %d of sender %d never received", q, s);
  }
  /* teardown: everything was received, the channels and the signal go away */
  switch (kind) {
    case K_BOUNDED_SIG:
    case K_BOUNDED_SPIN: fiber_bounded_channel_destroy(bch); break;
    case K_UNBOUNDED: fiber_unbounded_channel_destroy(&uch); break;
    case K_UNBOUNDED_SP: fiber_unbounded_sp_channel_destroy(&spch); break;
    case K_MULTI: fiber_multi_channel_destroy(mch); break;
    default: break;
  }
  fiber_signal_destroy(&sig);
  free(uch_p);
  free(spch_p);
  free(sig_p);
  h_fiber_end();
}
