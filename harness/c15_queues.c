/* C15 - MPSC / SPSC / relaxed-MPSC queues: each item popped once, per-producer FIFO,
 * strict FIFO for completed pushes (strict queues), empty only if nothing completed is pending */
#include "common.h"
#include "mpsc_fifo.h"
#include "mpsc_relaxed_fifo.h"
#include "spsc_fifo.h"

const char* const H_NAME = "c15_queues";
const char* const H_PROPERTY = "C15";

#define MAXP 3
#define MAXOPS 6
enum { Q_MPSC = 0, Q_SPSC, Q_MPSCR };
static int kind, nprod, npush[MAXP], cons_pops, yield_mask;
static mpsc_fifo_t* mq_p; /* the queues live in heap memory with arbitrary previous contents */
static spsc_fifo_t* sq_p;
#define mq (*mq_p)
#define sq (*sq_p)
static mpscr_fifo_t* rq;
static int lanes, lane_of[MAXP]; /* relaxed queue: more lanes than producer threads, each thread with its own producer number */
/* relaxed queue oracle */
static int last_seq[MAXP], popped_cnt, pushed_done[MAXP], pushed_begun[MAXP];
static unsigned char got[MAXP][MAXOPS + 1];

/* popped nodes are handed back to the producers and pushed again with whatever their fields hold
 * (a node returned by pop still points to its old successor) */
static void* recycle[64];
static int nrecycle, recycle_on;
static NS void* node_get(size_t sz) {
  if (recycle_on && nrecycle) return recycle[--nrecycle];
  return malloc(sz);
}
static NS void node_put(void* n) {
  sim_tso_sync(); /* the node changes hands outside the queue: whatever carries it would order the consumer's stores first */
  if (recycle_on && nrecycle < 64) recycle[nrecycle++] = n;
  else free(n);
}
#define MKV(p, q) ((long)(((p) + 1) << 8 | ((q) + 1)))
static NS int g_inv(int t, int op, long arg) {
  sim_tso_sync();
  if (op == OP_PUSH) pushed_begun[(arg >> 8) - 1]++;
  return kind == Q_MPSCR ? 0 : hist_invoke(t, op, arg);
}
static NS void g_ret(int idx, long res) {
  sim_tso_sync();
  if (kind != Q_MPSCR) hist_return(idx, res);
  sim_progress();
}
static NS void g_peek_mismatch(void* seen, void* got, int popped) {
  sim_violation("C15-peek-pop-mismatch", "mpsc_fifo_peek showed payload %p, the consumer's next pop %s %p", seen, popped ? "returned" : "found the queue empty", got);
}
static NS void g_push_done(int p) {
  sim_tso_sync(); /* "completed" means the push's stores have drained */
  pushed_done[p]++;
}
/* snapshot taken when a pop is invoked: pushes completed so far (for the relaxed queue's empty rule) */
static NS int g_completed_unpopped(void) {
  int c = 0;
  for (int p = 0; p < nprod; p++) c += pushed_done[p];
  return c - popped_cnt;
}
static NS int g_inflight(void) {
  int c = 0;
  for (int p = 0; p < nprod; p++) c += pushed_begun[p] - pushed_done[p];
  return c;
}
static NS void g_relaxed_pop(long v, int completed_before, int inflight_during) {
  if (v == RES_EMPTY) {
    if (completed_before > 0 && !inflight_during)
      sim_violation("C15-empty-with-pending", "relaxed MPSC pop reported empty although %d completed pushes were pending and no push was in flight", completed_before);
    return;
  }
  int p = (int)(v >> 8) - 1, q = (int)(v & 0xff) - 1;
  if (p < 0 || p >= nprod || q < 0 || q >= pushed_begun[p]) sim_violation("C15-invented-item", "pop returned %#lx which was never pushed", v);
  if (got[p][q]) sim_violation("C15-popped-twice", "item %d of producer %d popped twice", q, p);
  got[p][q] = 1;
  if (q != last_seq[p]) sim_violation("C15-producer-order", "producer %d: item %d popped when %d was next", p, q, last_seq[p]);
  last_seq[p] = q + 1;
  popped_cnt++;
}
/* one item may carry a NULL payload (a legal value): it is recognised by being the only one */
static int null_p = -1, null_q = -1;
#define PAYLOAD(p, q, v) ((p) == null_p && (q) == null_q ? NULL : (void*)(v))
#define VALUE_OF(data) ((data) == NULL && null_p >= 0 ? MKV(null_p, null_q) : (long)(data))
static void do_push(int p, int q) {
  long v = MKV(p, q);
  int h = g_inv(p, OP_PUSH, v);
  if (kind == Q_MPSC) {
    mpsc_fifo_node_t* n = node_get(sizeof *n);
    n->data = PAYLOAD(p, q, v);
    mpsc_fifo_push(&mq, n);
  } else {
    spsc_node_t* n = node_get(sizeof *n);
    n->data = PAYLOAD(p, q, v);
    if (kind == Q_SPSC) spsc_fifo_push(&sq, n);
    else mpscr_fifo_push(rq, (size_t)lane_of[p], n);
  }
  g_push_done(p);
  g_ret(h, RES_OK);
}
static long do_pop(int t) {
  int h = g_inv(t, OP_POP, 0);
  int cb = g_completed_unpopped();
  int infl = g_inflight();
  long v = RES_EMPTY;
  if (kind == Q_MPSC) {
    /* the single consumer looks before it takes: what peek showed is what the next pop returns */
    void* seen = (void*)-1;
    const int has = mpsc_fifo_peek(&mq, &seen);
    mpsc_fifo_node_t* n = mpsc_fifo_trypop(&mq);
    if (has && (!n || n->data != seen)) g_peek_mismatch(seen, n ? n->data : NULL, n != NULL);
    if (n) {
      v = VALUE_OF(n->data);
      node_put(n);
    }
  } else {
    spsc_node_t* n = kind == Q_SPSC ? spsc_fifo_trypop(&sq) : mpscr_fifo_trypop(rq);
    if (n) {
      v = VALUE_OF(n->data);
      node_put(n);
    }
  }
  if (kind == Q_MPSCR) g_relaxed_pop(v, cb, infl || g_inflight());
  g_ret(h, v);
  return v;
}
static void* producer(void* p) {
  const int me_ = (int)(intptr_t)p;
  for (int q = 0; q < npush[me_]; q++) {
    do_push(me_, q);
    if (yield_mask >> me_ & 1) sim_yield_point();
  }
  return NULL;
}
static void* consumer(void* p) {
  (void)p;
  for (int i = 0; i < cons_pops; i++) do_pop(nprod);
  return NULL;
}
void h_run(void) {
  sim_cfg_t c = sim_config(1, 1, 0, FBIT(F_STALL));
  kind = wl_pick(3);
  nprod = kind == Q_SPSC ? 1 : wl_int(1, MAXP);
  int total = 0;
  const int maxops = sim_tier_thorough() ? MAXOPS : 5;
  for (int p = 0; p < nprod; p++) {
    npush[p] = wl_int(1, maxops);
    total += npush[p];
  }
  cons_pops = wl_int(1, total + 2);
  yield_mask = wl_int(0, 7);
  recycle_on = wl_pct(60);
  if (wl_pct(30)) {
    null_p = wl_pick(nprod);
    null_q = wl_pick(npush[null_p]);
  }
  /* "any number of producers": the relaxed queue is created for up to 14 producers of which nprod take part */
  lanes = wl_pct(50) ? nprod : wl_int(nprod, 14);
  for (int p = 0; p < nprod; p++) {
    int again;
    do {
      lane_of[p] = lanes == nprod ? p : wl_pick(lanes);
      again = 0;
      for (int q = 0; q < p; q++) again |= lane_of[q] == lane_of[p];
    } while (again);
  }
  static const char* const kn[] = {"mpsc", "spsc", "mpsc-relaxed"};
  sim_describe("%s producers=%d (producer numbers %d,%d,%d of %d) pushes=%d concurrent_pops=%d node_recycling=%d null_payload=%d/%d preempt=1/%d", kn[kind], nprod, lane_of[0], nprod > 1 ? lane_of[1] : -1,
               nprod > 2 ? lane_of[2] : -1, lanes, total, cons_pops, recycle_on, null_p, null_q, c.preempt_inv);
  sim_nontrivial();
  hist_reset(M_FIFO, 0);
  mq_p = h_dirty_alloc(sizeof *mq_p);
  sq_p = h_dirty_alloc(sizeof *sq_p);
  const int tso = wl_pct(40);
  if (tso) sim_tso_enable_plain();
  if (kind == Q_MPSC) mpsc_fifo_init(&mq);
  else if (kind == Q_SPSC) spsc_fifo_init(&sq);
  else rq = mpscr_fifo_create((size_t)lanes);
  pthread_t th[MAXP + 1];
  for (int p = 0; p < nprod; p++) pthread_create(&th[p], NULL, producer, (void*)(intptr_t)p);
  pthread_create(&th[nprod], NULL, consumer, NULL);
  for (int p = 0; p <= nprod; p++) pthread_join(th[p], NULL);
  /* the single consumer role passes to the main thread: drain */
  int guard = 0;
  for (;;) {
    long v = do_pop(nprod);
    if (v == RES_EMPTY) {
      /* the relaxed queue may need a full round over all producers */
      if (kind != Q_MPSCR || ++guard > 1) break;
    }
  }
  if (kind == Q_MPSCR) {
    if (popped_cnt != total) sim_violation("C15-lost-item", "%d items pushed, %d popped after the final drain", total, popped_cnt);
  } else {
    h_lin_verdict("C15-not-linearizable");
  }
  /* teardown */
  if (kind == Q_MPSC) mpsc_fifo_destroy(&mq);
  else if (kind == Q_SPSC) spsc_fifo_destroy(&sq);
  else mpscr_fifo_destroy(rq);
  free(mq_p);
  free(sq_p);
  sim_finish_ok();
}
