/* C20 (threads) - double-word-CAS structures are ABA-safe: LIFO, distinguished FIFO, flushable stack */
#include "common.h"
#include "dist_fifo.h"
#include "mpmc_lifo.h"
#include "mpmc_stack.h"

const char* const H_NAME = "c20_dwcas";
const char* const H_PROPERTY = "C20";

#define MAXTH 4
#define MAXOPS 7
enum { D_LIFO = 0, D_DIST, D_STACK };
static int kind, nth;
static struct {
  int n, op[MAXOPS];
} prog[MAXTH];
static mpmc_lifo_t* lifo_p; /* heap memory with arbitrary previous contents */
static dist_fifo_t* dfifo_p;
static mpmc_stack_t* stk_p;
#define lifo (*lifo_p)
#define dfifo (*dfifo_p)
#define stk (*stk_p)
static long pushed_vals[96], popped_vals[96];
static int npushed, npopped;
static int retries;
/* type-stable node pools (never freed, reused immediately) */
static mpsc_fifo_node_t* pool_free[96];
static int pool_n;
static mpmc_stack_node_t* spool_free[96];
static int spool_n;
static long seqno[MAXTH + 1];

static NS mpsc_fifo_node_t* node_get(void) {
  if (pool_n) return pool_free[--pool_n];
  return calloc(1, sizeof(mpsc_fifo_node_t));
}
static NS void node_put(mpsc_fifo_node_t* n) {
  sim_tso_sync(); /* the node changes hands outside the structure */
  pool_free[pool_n++] = n;
}
static NS mpmc_stack_node_t* snode_get(void) {
  if (spool_n) return spool_free[--spool_n];
  return calloc(1, sizeof(mpmc_stack_node_t));
}
static NS void snode_put(mpmc_stack_node_t* n) {
  sim_tso_sync();
  spool_free[spool_n++] = n;
}
static NS int g_inv(int t, int op, long arg) { return hist_invoke(t, op, arg); }
static NS void g_ret(int idx, long res) {
  hist_return(idx, res);
  sim_progress();
}
static NS void g_drop(int idx) {
  hist_drop(idx);
  retries++;
  sim_nontrivial();
}
static NS void g_pushed(long v) { pushed_vals[npushed++] = v; }
static NS void g_popped(long v) {
  for (int i = 0; i < npopped; i++)
    if (popped_vals[i] == v) sim_violation("C20-taken-twice", "value %#lx handed to two takers", v);
  int ok = 0;
  for (int i = 0; i < npushed; i++) ok |= pushed_vals[i] == v;
  if (!ok) sim_violation("C20-invented-value", "taker received %#lx which was never pushed", v);
  popped_vals[npopped++] = v;
}
static NS void g_unpush(long v) {
  for (int i = 0; i < npopped; i++)
    if (popped_vals[i] == v) sim_violation("C20-invented-value", "value %#lx was handed to a taker although its push gave up", v);
  for (int i = 0; i < npushed; i++)
    if (pushed_vals[i] == v) pushed_vals[i] = pushed_vals[--npushed];
  sim_probe("stack_push_gave_up", 1);
}
static NS long newval(int t) { return ((long)(t + 1) << 8) | (++seqno[t]); }

static void do_push(int t) {
  long v = newval(t);
  g_pushed(v);
  int h = g_inv(t, OP_PUSH, v);
  if (kind == D_LIFO) {
    mpmc_lifo_node_t* n = node_get();
    n->data = (void*)v;
    mpmc_lifo_push(&lifo, n);
  } else if (kind == D_DIST) {
    dist_fifo_node_t* n = node_get();
    n->data = (void*)v;
    dist_fifo_push(&dfifo, n);
  } else {
    mpmc_stack_node_t* n = snode_get();
    mpmc_stack_node_init(n, (void*)v);
    if (v & 2) { /* every other value goes through the bounded-retry variant, which may give up */
      if (mpmc_stack_push_timeout(&stk, n, 1 + (size_t)(v & 1)) != MPMC_SUCCESS) {
        g_unpush(v); /* never linked: nobody can have taken it */
        snode_put(n);
        g_drop(h);
        return;
      }
    } else
      mpmc_stack_push(&stk, n);
  }
  g_ret(h, RES_OK);
}
static long do_pop(int t, int flush_fifo) {
  long res = RES_EMPTY;
  if (kind == D_LIFO) {
    int h = g_inv(t, OP_POP, 0);
    mpmc_lifo_node_t* n = mpmc_lifo_pop(&lifo);
    if (n) {
      res = (long)n->data;
      g_popped(res);
      node_put(n); /* reused at once by the next push: ABA */
    }
    g_ret(h, res);
  } else if (kind == D_DIST) {
    int h = g_inv(t, OP_POP, 0);
    dist_fifo_node_t* n = dist_fifo_trypop(&dfifo);
    if (n == DIST_FIFO_RETRY) {
      g_drop(h);
      return RES_FAIL;
    }
    if (n != DIST_FIFO_EMPTY) {
      res = (long)n->data;
      g_popped(res);
      node_put(n);
    }
    g_ret(h, res);
  } else {
    int h = g_inv(t, flush_fifo ? OP_FLUSH_FIFO : OP_FLUSH_LIFO, 0);
    mpmc_stack_node_t* l = flush_fifo ? mpmc_stack_fifo_flush(&stk) : mpmc_stack_lifo_flush(&stk);
    long vals[96];
    int k = 0;
    while (l) {
      mpmc_stack_node_t* nx = l->next;
      vals[k] = (long)mpmc_stack_node_get_data(l);
      g_popped(vals[k]);
      k++;
      snode_put(l);
      l = nx;
    }
    /* the model hashes its content oldest-first for a fifo flush and newest-first for a lifo flush,
     * which is exactly the order in which we walked the returned list */
    res = (long)hist_seq_hash(vals, k);
    g_ret(h, res);
    return k ? res : RES_EMPTY;
  }
  return res;
}
static void* thr(void* p) {
  const int t = (int)(intptr_t)p;
  for (int i = 0; i < prog[t].n; i++) {
    int o = prog[t].op[i];
    if (o == 1) do_push(t);
    else do_pop(t, o == 2);
  }
  return NULL;
}
void h_run(void) {
  sim_cfg_t c = sim_config(1, 1, 0, FBIT(F_STALL));
  kind = wl_pick(3);
  nth = wl_int(2, MAXTH);
  int total = 0;
  const int maxops = sim_tier_thorough() ? MAXOPS : 5;
  for (int t = 0; t < nth; t++) {
    prog[t].n = wl_int(1, maxops);
    for (int i = 0; i < prog[t].n; i++) {
      int push = wl_pct(55);
      if (kind == D_DIST) push = (t == 0) ? wl_pct(80) : 0; /* one distinguished pusher (thread 0), which never pops */
      if (kind == D_DIST && t == 0) push = 1;
      prog[t].op[i] = push ? 1 : (kind == D_STACK && wl_pct(50) ? 2 : 0);
    }
    total += prog[t].n;
  }
  static const char* const kn[] = {"mpmc_lifo", "dist_fifo", "mpmc_stack"};
  sim_describe("%s threads=%d ops=%d preempt=1/%d", kn[kind], nth, total, c.preempt_inv);
  if (total >= 3) sim_nontrivial();
  hist_reset(kind == D_LIFO ? M_LIFO : kind == D_DIST ? M_FIFO : M_STACK_FLUSH, 0);
  posix_memalign((void**)&lifo_p, 64, sizeof *lifo_p);
  posix_memalign((void**)&dfifo_p, 64, sizeof *dfifo_p);
  posix_memalign((void**)&stk_p, 64, sizeof *stk_p);
  {
    static const unsigned char pat[] = {0x00, 0xA5, 0xFF, 0x01, 0x7F};
    const int k = wl_pick(5);
    memset(lifo_p, pat[k], sizeof *lifo_p);
    memset(dfifo_p, pat[k], sizeof *dfifo_p);
    memset(stk_p, pat[k], sizeof *stk_p);
  }
  if (wl_pct(40)) sim_tso_enable_plain();
  if (kind == D_LIFO) mpmc_lifo_init(&lifo);
  else if (kind == D_DIST) dist_fifo_init(&dfifo);
  else mpmc_stack_init(&stk);
  pthread_t th[MAXTH];
  for (int t = 0; t < nth; t++) pthread_create(&th[t], NULL, thr, (void*)(intptr_t)t);
  for (int t = 0; t < nth; t++) pthread_join(th[t], NULL);
  for (int guard = 0; guard < 200; guard++) {
    long r = do_pop(nth, 1);
    if (r == RES_EMPTY) break;
  }
  if (npopped != npushed) sim_violation("C20-lost-value", "%d values pushed, %d taken after the final drain", npushed, npopped);
  sim_probe("dist_fifo_retries", retries);
  h_lin_verdict("C20-not-linearizable");
  /* teardown: the structures are empty; the nodes belong to the harness's pools */
  if (kind == D_LIFO) mpmc_lifo_destroy(&lifo);
  sim_finish_ok();
}
