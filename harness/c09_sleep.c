/* C09 - sleeping fibers wake exactly once and never early; other fibers keep running */
#include <time.h>
#include <unistd.h>

#include "common.h"
#include "fiber_event.h"
#include "fiber_io.h"
#include "fiber_manager.h"

const char* const H_NAME = "c09_sleep";
const char* const H_PROPERTY = "C09";

#define MAXFB 8
enum { VIA_FIBER_SLEEP = 0, VIA_USLEEP, VIA_NANOSLEEP, VIA_SLEEP };
static struct {
  int role;          /* 0 sleeper, 1 busy (compute + yield), 2 ticker (yields only) */
  int nsleeps;
  uint64_t us[3];
  int via[3];
  int pre_us[3]; /* computation (kernel thread busy, no polling) right before the sleep call */
  int compute_us, reps;
} spec[MAXFB];
static int nfib, nthreads;
static uint64_t ticker_done_ns[MAXFB];
static int n_sleepers, n_busy;
static uint64_t last_wake_ns, first_long_wake_ns;

static NS uint64_t g_before(void) { return sim_now(); }
static NS void g_after(int who, uint64_t t0, uint64_t req_us, int sw0) {
  uint64_t t1 = sim_now();
  sim_poison_stack_below(); /* the dead frames below us held fiber_sleep's list node */
  if (t1 - t0 < req_us * 1000)
    sim_violation("C09-early-wake", "fiber %d asked to sleep %lu us and was resumed after %lu us", who, (unsigned long)req_us, (unsigned long)((t1 - t0) / 1000));
  int sw = sim_fiber_wakeups(sim_current_fiber()) - sw0;
  if (sw != 1) sim_violation("C09-wakeup-count", "fiber %d was woken %d times for one sleep call (exactly one expected)", who, sw);
  if (t1 > last_wake_ns) last_wake_ns = t1;
  if (req_us >= 60000 && (first_long_wake_ns == 0 || t1 < first_long_wake_ns)) first_long_wake_ns = t1;
  sim_progress();
}
static NS int g_sw(void) { return sim_fiber_wakeups(sim_current_fiber()); }
static NS void g_ticker_done(int who) {
  ticker_done_ns[who] = sim_now();
  sim_progress();
}
static NS void g_busy_step(void) { sim_progress(); }
static NS void g_thread_locked(int on) { simk_thread_locked(on); }

static void do_sleep(int via, uint64_t us) {
  switch (via) {
    case VIA_USLEEP:
      usleep((useconds_t)us);
      break;
    case VIA_NANOSLEEP: {
      /* nanosecond granularity: the request is for at least `us` microseconds */
      struct timespec ts = {.tv_sec = us / 1000000, .tv_nsec = (us % 1000000) * 1000 + (long)(us * 7 % 1000)};
      struct timespec rem = {77, 77};
      nanosleep(&ts, (us & 1) ? &rem : NULL); /* with and without the "remaining" argument */
      break;
    }
    case VIA_SLEEP:
      sleep((unsigned)(us / 1000000));
      break;
    default:
      fiber_sleep((uint32_t)(us / 1000000), (uint32_t)(us % 1000000));
  }
}
/* ---- aligned scenario: thread B finishes a long computation and polls the (coalesced) timer at about the
 * moment a fiber on thread A calls a short sleep ---- */
static int al_d_us, al_e_us, al_sleep_us, al_reps;
static volatile int al_started;
static int al_both_sleep, al_timer_stall;
static uint64_t al_until_ns; /* both-sleep mode: both computations end at this instant (chosen tick phase) */
static void* al_finisher(void* p) {
  (void)p;
  al_started = 1;
  if (al_both_sleep) sim_compute_until(al_until_ns);
  else sim_compute((uint64_t)al_d_us * 1000);
  /* this kernel thread will read the (coalesced) timer next: optionally it is descheduled right after that read */
  if (al_timer_stall) sim_stall_after_timer_read(al_timer_stall);
  sim_progress();
  if (al_both_sleep) { /* both kernel threads were busy for several ticks; both fibers now sleep */
    uint64_t t0 = g_before();
    int sw0 = g_sw();
    fiber_sleep(0, (uint32_t)al_sleep_us);
    g_after(1, t0, (uint64_t)al_sleep_us, sw0);
  }
  return NULL;
}
static void* al_sleeper(void* p) {
  (void)p;
  long pre = (long)al_d_us + al_e_us;
  if (pre < 0) pre = 0;
  if (al_both_sleep) sim_compute_until(al_until_ns + (al_e_us > 0 ? (uint64_t)al_e_us * 1000 : 0));
  else sim_compute((uint64_t)pre * 1000);
  for (int k = 0; k < al_reps; k++) {
    uint64_t t0 = g_before();
    int sw0 = g_sw();
    fiber_sleep(0, (uint32_t)al_sleep_us);
    g_after(0, t0, (uint64_t)al_sleep_us, sw0);
  }
  return NULL;
}
static void run_aligned(sim_cfg_t c) {
  al_d_us = 1000 * wl_int(11, 40);
  al_e_us = wl_int(-600, 2500);
  al_sleep_us = wl_pick(2) ? 300 : 999;
  al_reps = wl_int(1, 2);
  al_both_sleep = wl_pct(50);
  al_timer_stall = wl_pct(50) ? wl_int(1, 20) * 100 : 0;
  if (al_both_sleep) {
    al_e_us = wl_pct(60) ? 0 : wl_int(0, 200);
    /* the timer started ticking at (about) time 0 with a 5 ms period: pick the phase at which both wake up */
    al_until_ns = ((uint64_t)al_d_us / 5000) * 5000000ull + (uint64_t)wl_int(0, 4999) * 1000;
  }
  sim_describe("threads=%d aligned: fiber A computes %d us%s, fiber B computes %d us then sleeps %d us x%d cost=%dns preempt=1/%d", c.threads, al_d_us, al_both_sleep ? " then sleeps too" : " and ends",
               al_d_us + al_e_us, al_sleep_us, al_reps, c.cost_ns, c.preempt_inv);
  sim_nontrivial();
  sim_set_quiet_ns(100 * 5000000ull);
  sim_fiber_mode();
  fiber_manager_init(c.threads < 2 ? 2 : c.threads);
  fiber_t* x = fiber_create(STK, al_finisher, NULL);
  while (!al_started) fiber_yield(); /* the finisher now occupies a kernel thread */
  fiber_t* s = fiber_create(STK, al_sleeper, NULL);
  fiber_join(s, NULL);
  fiber_join(x, NULL);
  h_fiber_end();
}
static void* fib(void* p) {
  const int who = (int)(intptr_t)p;
  if (spec[who].role == 0) {
    for (int k = 0; k < spec[who].nsleeps; k++) {
      uint64_t us = spec[who].us[k];
      if (spec[who].via[k] == VIA_SLEEP) us = (us / 1000000) * 1000000;
      if (spec[who].pre_us[k]) sim_compute((uint64_t)spec[who].pre_us[k] * 1000);
      uint64_t t0 = g_before();
      int sw0 = g_sw();
      do_sleep(spec[who].via[k], us);
      g_after(who, t0, us, sw0);
    }
  } else if (spec[who].role == 1) {
    for (int k = 0; k < spec[who].reps; k++) {
      sim_compute((uint64_t)spec[who].compute_us * 1000);
      g_busy_step();
      RS0(fiber_yield);
    }
  } else if (spec[who].role == 3) {
    /* a fiber that locks its kernel thread for a plain blocking call (here: a real sleep). Only this thread may
     * block; sleeps issued on other kernel threads meanwhile still have to go through the fiber runtime */
    for (int k = 0; k < spec[who].reps; k++) {
      fiber_io_lock_thread();
      g_thread_locked(1);
      usleep((useconds_t)spec[who].compute_us);
      g_thread_locked(0);
      fiber_io_unlock_thread();
      g_busy_step();
      RS0(fiber_yield);
    }
  } else {
    for (int k = 0; k < spec[who].reps; k++) RS0(fiber_yield);
    g_ticker_done(who);
  }
  return NULL;
}
/* ---- very long sleeps (over an hour): they cannot be waited for, but they must not return early.
 * A handful of detached fibers ask for (seconds, microseconds) combinations around 2^32 microseconds and
 * multiples of it; the main fiber sleeps a second or two and then none of them may have returned. ---- */
static volatile int ls_returned[6];
static uint64_t ls_returned_ns[6];
static struct {
  uint32_t sec, usec, nsx; /* nsx: nanoseconds on top (nanosleep only) */
  int via;
} ls_spec[6];
static NS void g_ls_returned(int i) { ls_returned_ns[i] = sim_now(); }
static void* ls_fiber(void* p) {
  const int i = (int)(intptr_t)p;
  switch (ls_spec[i].via) {
    case 0: fiber_sleep(ls_spec[i].sec, ls_spec[i].usec); break;
    case 1: sleep(ls_spec[i].sec); break;
    default: {
      struct timespec ts = {.tv_sec = ls_spec[i].sec, .tv_nsec = (long)ls_spec[i].usec * 1000 + (long)ls_spec[i].nsx};
      nanosleep(&ts, NULL);
    }
  }
  g_ls_returned(i);
  ls_returned[i] = 1;
  return NULL;
}
static void run_long_sleepers(sim_cfg_t c) {
  static const uint32_t secs[] = {4294, 4295, 4296, 8589, 8590, 12885, 3600, 86400, 604800, 4000000};
  const int n = wl_int(1, 4);
  char d[260];
  int dk = 0;
  for (int i = 0; i < n; i++) {
    ls_spec[i].sec = secs[wl_pick(10)];
    ls_spec[i].usec = wl_pct(50) ? 0 : (uint32_t)wl_int(0, 999999);
    if (wl_pct(25)) ls_spec[i].usec = 967296 + (uint32_t)wl_int(0, 8) * 4000; /* 4294 s + 967296 us = 2^32 us */
    ls_spec[i].via = wl_pick(3);
    ls_spec[i].nsx = 0;
    if (wl_pct(30)) { /* a nanosleep request within a microsecond of a whole number of seconds */
      ls_spec[i].sec = (uint32_t)wl_int(0, 2);
      ls_spec[i].usec = 999999;
      ls_spec[i].nsx = (uint32_t)wl_int(0, 999);
      ls_spec[i].via = 2;
    }
    dk += snprintf(d + dk, sizeof d - dk, "%us+%uus+%uns/%d ", ls_spec[i].sec, ls_spec[i].usec, ls_spec[i].nsx, ls_spec[i].via);
  }
  const int wait_ms = wl_int(1, 6) * 100;
  sim_scenario("long-sleepers");
  sim_describe("threads=%d long sleepers: %s(0 fiber_sleep, 1 sleep, 2 nanosleep); checked after %d ms", c.threads, d, wait_ms);
  sim_nontrivial();
  /* the library counts milliseconds in ticks of 5 ms: its own deadline for the main fiber's sleep, plus 40 ticks */
  sim_set_quiet_ns((uint64_t)(wait_ms + 2) * 5000000ull * 3 + 40 * 5000000ull);
  sim_fiber_mode();
  fiber_manager_init(c.threads);
  const uint64_t t0 = sim_now(); /* (before any of them exists: "returned - t0" is at least the time slept) */
  for (int i = 0; i < n; i++) fiber_detach(fiber_create(STK, ls_fiber, (void*)(intptr_t)i));
  fiber_sleep(0, (uint32_t)wait_ms * 1000);
  for (int i = 0; i < n; i++)
    if (ls_returned[i] && ls_returned_ns[i] - t0 < (uint64_t)ls_spec[i].sec * 1000000000ull + (uint64_t)ls_spec[i].usec * 1000)
      sim_violation("C09-early-wake", "a fiber asked to sleep %u s + %u us + %u ns and returned %lu ms after it was created", ls_spec[i].sec, ls_spec[i].usec, ls_spec[i].nsx,
                    (unsigned long)((ls_returned_ns[i] - t0) / 1000000));
  sim_finish_ok(); /* the sleepers stay asleep: nothing to join */
}
void h_run(void) {
  sim_cfg_t c = sim_config(1, 3, 40, FBIT(F_STALL));
  nthreads = c.threads;
  if (wl_pct(6)) {
    run_long_sleepers(c);
    return;
  }
  static const uint64_t durs[] = {0, 300, 999, 1000, 3000, 5000, 7000, 12000, 12000, 25000, 60000, 250000, 1000300, 2007000};
  const int ndur = sim_tier_thorough() || wl_pct(15) ? 14 : 12; /* sleeps of a second and more: simulated time is cheap */
  if (wl_pct(22)) {
    run_aligned(c);
    return;
  }
  nfib = wl_int(1, 6);
  int busy_scenario = wl_pct(35);
  uint64_t shared = durs[wl_pick(ndur)];
  uint64_t longest = 0;
  char d[300];
  int dk = 0;
  for (int i = 0; i < nfib; i++) {
    int r = wl_pick(10);
    spec[i].role = r < 6 ? 0 : (r < 8 ? (busy_scenario ? 1 : 2) : 2);
    if (i == 0) spec[i].role = 0;
    if (spec[i].role == 1 && wl_pct(25)) spec[i].role = 3; /* busy through a real sleep on a locked thread */
    if (spec[i].role == 0) {
      n_sleepers++;
      spec[i].nsleeps = wl_int(1, 3);
      for (int k = 0; k < spec[i].nsleeps; k++) {
        spec[i].us[k] = wl_pct(40) ? shared : durs[wl_pick(ndur)];
        spec[i].via[k] = wl_pick(4);
        /* sleep() takes whole seconds: shorter requests become sleep(0) */
        spec[i].pre_us[k] = busy_scenario && wl_pct(60) ? 1000 * wl_int(1, 40) : 0;
        if (spec[i].pre_us[k]) n_busy++;
        if (spec[i].us[k] > longest) longest = spec[i].us[k];
        dk += snprintf(d + dk, sizeof d - dk, "s%d:%luus/%d ", i, (unsigned long)spec[i].us[k], spec[i].via[k]);
      }
    } else if (spec[i].role == 1 || spec[i].role == 3) {
      n_busy++;
      spec[i].compute_us = 1000 * wl_int(1, 80);
      spec[i].reps = wl_int(1, 3);
      dk += snprintf(d + dk, sizeof d - dk, "%s%d:%dus*%d ", spec[i].role == 1 ? "busy" : "locked-thread-sleep", i, spec[i].compute_us, spec[i].reps);
    } else {
      spec[i].reps = wl_int(1, 20);
      dk += snprintf(d + dk, sizeof d - dk, "tick%d:%d ", i, spec[i].reps);
    }
  }
  sim_describe("threads=%d %s", c.threads, d);
  if (n_busy) sim_scenario("busy-thread-then-sleep");
  if (n_sleepers >= 2 || n_busy) sim_nontrivial();
  /* the library sleeps (ms + 1) ticks of 5 ms: its own deadline for the longest sleep, plus 40 ticks */
  sim_set_quiet_ns((longest / 1000 + 2) * 5000000ull * 3 + 40 * 5000000ull);
  sim_fiber_mode();
  fiber_manager_init(c.threads);
  fiber_t* f[MAXFB];
  uint64_t t_start = sim_now();
  for (int i = 0; i < nfib; i++) f[i] = fiber_create(STK, fib, (void*)(intptr_t)i);
  for (int i = 0; i < nfib; i++) fiber_join(f[i], NULL);
  /* other fibers keep running while a fiber sleeps: on one kernel thread without busy fibers a ticker
   * (at most 20 yields) must be finished before a >= 60 ms sleeper wakes */
  (void)t_start;
  if (nthreads == 1 && !n_busy && !(c.faults & FBIT(F_STALL)) && first_long_wake_ns)
    for (int i = 0; i < nfib; i++)
      if (spec[i].role == 2 && ticker_done_ns[i] > first_long_wake_ns)
        sim_violation("C09-sleep-blocks-thread", "ticker fiber %d (%d yields) on the same kernel thread finished after a >= 60 ms sleeper woke up (at %lu us vs %lu us)", i,
                      spec[i].reps, (unsigned long)(ticker_done_ns[i] / 1000), (unsigned long)(first_long_wake_ns / 1000));
  h_fiber_end();
}
