/* C05 - condition variable: atomic unlock-and-wait, no lost signal, broadcast wakes all,
 * no release without signal/broadcast, mutex held on return */
#include "common.h"
#include "fiber_cond.h"
#include "fiber_manager.h"

const char* const H_NAME = "c05_cond";
const char* const H_PROPERTY = "C05";

#define MAXFB 8
static fiber_mutex_t* cm_p; /* heap memory with arbitrary previous contents */
static fiber_cond_t* cv_p;
#define cm (*cm_p)
#define cv (*cv_p)
static int occ, tokens;
/* ghost counters */
static int waits_begun, waits_returned, signals_invoked, bcast_cover;
static int strict_mode, nw, ns;
static int registered, released_flag[MAXFB];
static struct {
  int n, mode[4], yield_between;
} sp[MAXFB]; /* signaller programs */
static int wper;

static NS void g_lock(const char* where) {
  if (occ) sim_violation("C05-mutex-not-held", "%s: two fibers inside the user mutex", where);
  occ = 1;
}
static NS void g_unlock(void) { occ = 0; }
static NS void g_wait_begin(void) {
  occ = 0; /* the wait releases the mutex */
  waits_begun++;
}
static NS void g_wait_return(int who) {
  if (occ) sim_violation("C05-wait-returned-without-mutex", "fiber %d returned from fiber_cond_wait while another fiber is inside the mutex", who);
  occ = 1;
  waits_returned++;
  if (waits_returned > signals_invoked + bcast_cover)
    sim_violation("C05-spurious-release", "%d waits have returned but only %d signals were invoked and broadcasts cover at most %d waiters", waits_returned, signals_invoked, bcast_cover);
  sim_nontrivial();
  sim_progress();
}
static NS void g_signal(void) { signals_invoked++; }
static NS void g_broadcast(void) { bcast_cover += waits_begun - waits_returned; } /* waits begun and not yet returned when the broadcast is invoked */
static NS void g_bcast_done(void) { /* waits that begin while the broadcast runs may legally be covered too */ }
static NS void g_op(void) { sim_progress(); }

/* ---- token programs: predicate loop; deadlock-free iff no signal is lost ---- */
static void* t_waiter(void* p) {
  const int who = (int)(intptr_t)p;
  for (int i = 0; i < wper; i++) {
    RS1(fiber_mutex_lock, &cm);
    g_lock("waiter");
    while (tokens == 0) {
      g_wait_begin();
      RS2(fiber_cond_wait, &cv, &cm);
      g_wait_return(who);
    }
    tokens--;
    g_unlock();
    RS1(fiber_mutex_unlock, &cm);
    g_op();
  }
  return NULL;
}
static void* t_signaller(void* p) {
  const int me_ = (int)(intptr_t)p;
  for (int i = 0; i < sp[me_].n; i++) {
    const int mode = sp[me_].mode[i];
    RS1(fiber_mutex_lock, &cm);
    g_lock("signaller");
    tokens++;
    if (mode == 0) { /* signal inside the critical section */
      g_signal();
      fiber_cond_signal(&cv);
      g_unlock();
      RS1(fiber_mutex_unlock, &cm);
    } else if (mode == 1) { /* signal after unlocking */
      g_unlock();
      RS1(fiber_mutex_unlock, &cm);
      g_signal();
      fiber_cond_signal(&cv);
    } else { /* broadcast inside */
      g_broadcast();
      fiber_cond_broadcast(&cv);
      g_unlock();
      RS1(fiber_mutex_unlock, &cm);
    }
    if (sp[me_].yield_between) RS0(fiber_yield);
    g_op();
  }
  return NULL;
}
/* ---- strict programs: no predicate loop.  A waiter registers under the mutex and waits; a signaller
 * that finds a registration under the same mutex signals once (or broadcasts): that must release it. ---- */
static void* s_waiter(void* p) {
  const int who = (int)(intptr_t)p;
  RS1(fiber_mutex_lock, &cm);
  g_lock("strict waiter");
  registered++;
  g_wait_begin();
  RS2(fiber_cond_wait, &cv, &cm);
  g_wait_return(who);
  released_flag[who] = 1;
  g_unlock();
  RS1(fiber_mutex_unlock, &cm);
  g_op();
  return NULL;
}
static int s_bcast, s_sig_outside;
static void* s_signaller(void* p) {
  (void)p;
  int need = nw;
  while (need > 0) {
    RS1(fiber_mutex_lock, &cm);
    g_lock("strict signaller");
    if (s_bcast) {
      if (registered == nw) { /* all waiters have begun waiting: one broadcast must release all of them */
        registered = 0;
        need = 0;
        g_broadcast();
        fiber_cond_broadcast(&cv);
      }
    } else if (registered > 0) {
      registered--;
      need--;
      g_signal();
      if (s_sig_outside) { /* the registration was seen under the mutex; the signal itself is issued after unlocking,
                              so it can overlap other waiters entering fiber_cond_wait */
        g_unlock();
        RS1(fiber_mutex_unlock, &cm);
        fiber_cond_signal(&cv);
        g_op();
        if (need) RS0(fiber_yield);
        continue;
      }
      fiber_cond_signal(&cv);
    }
    g_unlock();
    RS1(fiber_mutex_unlock, &cm);
    g_op();
    if (need) RS0(fiber_yield);
  }
  return NULL;
}
void h_run(void) {
  sim_cfg_t c = sim_config(1, 4, 0, FBIT(F_STALL));
  strict_mode = wl_pct(40);
  nw = wl_int(1, 4);
  ns = strict_mode ? 1 : wl_int(1, 3);
  s_bcast = wl_pct(50);
  s_sig_outside = wl_pct(50);
  wper = wl_int(1, 3);
  int total = nw * wper, left = total;
  for (int i = 0; i < ns; i++) {
    int k = (i == ns - 1) ? left : (left ? wl_int(0, left < 4 ? left : 4) : 0);
    if (k > 4) k = 4;
    left -= k;
    sp[i].n = k;
    for (int j = 0; j < k; j++) sp[i].mode[j] = wl_pick(3);
    sp[i].yield_between = wl_pct(50);
  }
  /* tokens that did not fit into the signallers' scripts are supplied up front */
  tokens = strict_mode ? 0 : left;
  sim_describe("threads=%d %s waiters=%d x%d signallers=%d %s preempt=1/%d", c.threads, strict_mode ? "strict" : "token", nw, wper, ns,
               strict_mode ? (s_bcast ? "broadcast" : "signal") : "", c.preempt_inv);
  sim_fiber_mode();
  fiber_manager_init(c.threads);
  cm_p = h_dirty_alloc(sizeof *cm_p);
  cv_p = h_dirty_alloc(sizeof *cv_p);
  fiber_mutex_init(&cm);
  fiber_cond_init(&cv);
  fiber_t* f[2 * MAXFB];
  int n = 0;
  if (strict_mode) {
    for (int i = 0; i < nw; i++) f[n++] = fiber_create(STK, s_waiter, (void*)(intptr_t)i);
    f[n++] = fiber_create(STK, s_signaller, NULL);
  } else {
    int first_sig = wl_pct(50);
    if (first_sig)
      for (int i = 0; i < ns; i++) f[n++] = fiber_create(STK, t_signaller, (void*)(intptr_t)i);
    for (int i = 0; i < nw; i++) f[n++] = fiber_create(STK, t_waiter, (void*)(intptr_t)i);
    if (!first_sig)
      for (int i = 0; i < ns; i++) f[n++] = fiber_create(STK, t_signaller, (void*)(intptr_t)i);
  }
  for (int i = 0; i < n; i++) fiber_join(f[i], NULL);
  if (strict_mode) {
    for (int i = 0; i < nw; i++)
      if (!released_flag[i]) sim_violation("C05-not-released", "strict waiter %d was never released", i);
  } else if (tokens != 0)
    sim_violation("C05-token-count", "%d tokens left after all waiters consumed theirs", tokens);
  if (cv.waiter_count != 0) sim_violation("C05-state-at-rest", "waiter_count %ld at rest", (long)cv.waiter_count);
  fiber_cond_destroy(&cv);
  fiber_mutex_destroy(&cm);
  free(cv_p);
  free(cm_p);
  h_fiber_end();
}
