/* C17 - work queue: one worker at a time, each item handed out once, none stranded */
#include "common.h"
#include "work_queue.h"

const char* const H_NAME = "c17_workq";
const char* const H_PROPERTY = "C17";

#define MAXTH 4
#define MAXIT 5
static work_queue_t* wq_p; /* heap memory with arbitrary previous contents */
#define wq (*wq_p)
static int nth, nall, nitems[MAXTH + 1], yield_mask;
static int64_t preset; /* > 0: the main thread becomes the worker first and the counters are moved close to 2^32 under it */
static pthread_t th[MAXTH];
static void* thr(void* p);
static uint64_t clk;
/* ghost */
static struct {
  uint64_t push_ret; /* stamp at which the push returned (0 = not yet) */
  int handed;
} item[MAXTH + 1][MAXIT];
static struct {
  uint64_t start, end;
} interval[64];
static int nint;
static int handed_total;

static NS uint64_t g_tick(void) {
  sim_tso_sync();
  return ++clk;
}
static NS void g_push_returned(int t, int i, int start) {
  sim_tso_sync();
  item[t][i].push_ret = ++clk;
  if (start) {
    interval[nint].start = clk;
    interval[nint].end = 0;
    sim_progress();
  }
}
static NS int g_worker_begin(void) { return nint++; }
static NS void g_handed(long v) {
  sim_tso_sync();
  int t = (int)(v >> 8) - 1, i = (int)(v & 0xff) - 1;
  if (t < 0 || t >= nall || i < 0 || i >= nitems[t]) sim_violation("C17-invented-item", "get_work returned %#lx which was never pushed", v);
  if (item[t][i].handed) sim_violation("C17-handed-out-twice", "item %d of thread %d handed to a worker twice", i, t);
  item[t][i].handed = 1;
  handed_total++;
  sim_progress();
}
static NS void g_empty(int iv, uint64_t invoked_at) {
  sim_tso_sync();
  /* EMPTY is illegal if an item whose push returned before this get_work was invoked is still queued */
  for (int t = 0; t < nall; t++)
    for (int i = 0; i < nitems[t]; i++)
      if (item[t][i].push_ret && item[t][i].push_ret < invoked_at && !item[t][i].handed)
        sim_violation("C17-empty-with-item-queued", "worker was told EMPTY although item %d of thread %d was pushed before it asked and has not been handed out", i, t);
  interval[iv].end = invoked_at; /* definitely active until the invocation of the call that returned EMPTY */
  sim_progress();
}
static NS void g_preset(void) {
  sim_tso_sync();
  wq.in_count += preset;
  wq.out_count += preset;
  preset = 0;
}
static void* thr(void* p) {
  const int t = (int)(intptr_t)p;
  for (int i = 0; i < nitems[t]; i++) {
    work_queue_item_t* it = malloc(sizeof *it);
    it->data = (void*)(((long)(t + 1) << 8) | (i + 1));
    int r = work_queue_push(&wq, it);
    g_push_returned(t, i, r == WORK_QUEUE_START_WORKING);
    if (r == WORK_QUEUE_START_WORKING) {
      int iv = g_worker_begin();
      for (;;) {
        work_queue_item_t* out = NULL;
        uint64_t inv = g_tick();
        int w = work_queue_get_work(&wq, &out);
        if (w == WORK_QUEUE_EMPTY) {
          g_empty(iv, inv);
          break;
        }
        g_handed((long)out->data);
        free(out);
        if (t == nth && preset > 0) {
          /* this thread is the active worker and has been handed one item: what the two counters look like after
           * `preset` more items went through without the worker ever finding the queue empty */
          g_preset();
          for (int k = 0; k < nth; k++) pthread_create(&th[k], NULL, thr, (void*)(intptr_t)k);
        }
        if (yield_mask >> t & 1) sim_yield_point();
      }
    }
    if (yield_mask >> (t + 4) & 1) sim_yield_point();
  }
  return NULL;
}
void h_run(void) {
  sim_cfg_t c = sim_config(1, 1, 0, FBIT(F_STALL));
  nth = wl_int(2, MAXTH);
  int total = 0;
  const int maxit = sim_tier_thorough() ? MAXIT : 4;
  for (int t = 0; t < nth; t++) {
    nitems[t] = wl_int(1, maxit);
    total += nitems[t];
  }
  yield_mask = wl_int(0, 255);
  nall = nth;
  if (wl_pct(25)) { /* counters next to 2^32 (they only go back to zero when a worker finds the queue empty) */
    static const int64_t marks[] = {1ll << 32, 1ll << 32, 1ll << 16, 1ll << 31, 1ll << 8, 1ll << 20};
    preset = marks[wl_pick(6)] - 1 - wl_int(0, 4);
    nitems[nth] = 1;
    total += 1;
    nall = nth + 1;
  }
  sim_describe("threads=%d items=%d counters_preset=%lld preempt=1/%d", nth, total, (long long)preset, c.preempt_inv);
  sim_nontrivial();
  wq_p = h_dirty_alloc(sizeof *wq_p);
  if (wl_pct(40)) sim_tso_enable_plain();
  work_queue_init(&wq);
  if (preset > 0) thr((void*)(intptr_t)nth); /* pushes one item, becomes the worker, starts the others from inside */
  else
    for (int t = 0; t < nth; t++) pthread_create(&th[t], NULL, thr, (void*)(intptr_t)t);
  for (int t = 0; t < nth; t++) pthread_join(th[t], NULL);
  for (int a = 0; a < nint; a++) {
    if (!interval[a].end) sim_violation("C17-worker-never-finished", "worker interval %d has no end", a);
    for (int b = a + 1; b < nint; b++)
      if (interval[a].start < interval[b].end && interval[b].start < interval[a].end)
        sim_violation("C17-two-workers", "two callers were active workers at the same time: [%lu,%lu] and [%lu,%lu]", (unsigned long)interval[a].start, (unsigned long)interval[a].end,
                      (unsigned long)interval[b].start, (unsigned long)interval[b].end);
  }
  if (handed_total != total) sim_violation("C17-item-stranded", "%d items pushed, %d handed to a worker; no worker is active any more", total, handed_total);
  sim_probe("worker_intervals", nint);
  work_queue_destroy(&wq);
  free(wq_p);
  sim_finish_ok();
}
