/* C06 - semaphore: never over-admits, never loses a post, trywait never blocks, value at rest */
#include "common.h"
#include "fiber_manager.h"
#include "fiber_semaphore.h"

const char* const H_NAME = "c06_sem";
const char* const H_PROPERTY = "C06";

#define MAXFB 8
#define MAXOPS 6
enum { S_WAIT = 0, S_TRYWAIT, S_POST, S_YIELD };
static fiber_semaphore_t* sem_p; /* heap memory with arbitrary previous contents */
#define sem (*sem_p)
static int sinit, successes, posts_begun, posts_done;
static struct {
  int n, op[MAXOPS];
} prog[MAXFB + 16]; /* the generated fibers plus the dedicated posters */
static int nfib;

static NS void g_success(int who, const char* how) {
  successes++;
  if (successes > sinit + posts_begun)
    sim_violation("C06-over-admission", "fiber %d: %s succeeded as success #%d but only %d initial units + %d posts begun exist", who, how, successes, sinit, posts_begun);
  sim_progress();
}
static NS void g_post_begin(void) { posts_begun++; }
static NS void g_post_done(void) {
  posts_done++;
  sim_progress();
}
static NS int g_wakeups(void) { return sim_fiber_switch_ins(sim_current_fiber()); }
static NS void g_trywait_noblock(int who, int before) {
  if (sim_fiber_switch_ins(sim_current_fiber()) != before)
    sim_violation("C06-trywait-blocked", "fiber %d was switched out inside fiber_semaphore_trywait", who);
}
static NS void g_trywait_fail_check(int who) { (void)who; sim_progress(); }

static void* fib(void* p) {
  const int who = (int)(intptr_t)p;
  for (int i = 0; i < prog[who].n; i++) {
    switch (prog[who].op[i]) {
      case S_WAIT: {
        int sw = g_wakeups();
        RS1(fiber_semaphore_wait, &sem);
        if (g_wakeups() != sw) sim_nontrivial();
        g_success(who, "wait");
        break;
      }
      case S_TRYWAIT: {
        int sw = g_wakeups();
        int r = fiber_semaphore_trywait(&sem);
        g_trywait_noblock(who, sw);
        if (r == FIBER_SUCCESS) {
          g_success(who, "trywait");
          /* a unit obtained by trywait is given back so that the script's balance is unchanged */
          g_post_begin();
          RS1(fiber_semaphore_post, &sem);
          g_post_done();
        } else
          g_trywait_fail_check(who);
        break;
      }
      case S_POST:
        g_post_begin();
        RS1(fiber_semaphore_post, &sem);
        g_post_done();
        break;
      default:
        RS0(fiber_yield);
    }
  }
  return NULL;
}
void h_run(void) {
  sim_cfg_t c = sim_config(1, 4, 0, FBIT(F_STALL));
  sinit = wl_int(0, 3);
  nfib = wl_int(2, 6);
  int total_wait = 0, total_post = 0;
  const int maxops = sim_tier_thorough() ? MAXOPS : 4;
  int early_post = 0; /* posts a fiber performs before its first blocking wait: certain to happen */
  for (int f = 0; f < nfib; f++) {
    prog[f].n = wl_int(1, maxops);
    int waited = 0;
    for (int i = 0; i < prog[f].n; i++) {
      int o = wl_pick(4);
      prog[f].op[i] = o;
      total_wait += o == S_WAIT;
      total_post += o == S_POST;
      if (o == S_WAIT) waited = 1;
      if (o == S_POST && !waited) early_post++;
    }
  }
  /* deadlock-free by construction: initial units + posts that no wait can hold back + dedicated poster
   * fibers (which never wait) cover every blocking wait */
  int missing = total_wait - sinit - early_post;
  int extra = 0;
  if (missing > 0) {
    extra = 1;
    prog[nfib].n = 0;
    while (missing > 0) {
      /* poster scripts are capped; several posters if needed */
      if (prog[nfib].n == MAXOPS) {
        nfib++;
        if (nfib >= MAXFB + 15) sim_violation("SIM-harness-table", "too many poster fibers");
        prog[nfib].n = 0;
      }
      prog[nfib].op[prog[nfib].n++] = S_POST;
      missing--;
      total_post++;
    }
    nfib++;
  }
  sim_describe("threads=%d init=%d fibers=%d waits=%d posts=%d extra_poster=%d preempt=1/%d", c.threads, sinit, nfib, total_wait, total_post, extra, c.preempt_inv);
  sim_fiber_mode();
  fiber_manager_init(c.threads);
  sem_p = h_dirty_alloc(sizeof *sem_p);
  /* large values: the semaphore is created with `big` more units, which are then taken out again in one step
   * (what `big` successful trywaits would leave behind); the value has to read back exactly in between */
  static const int bigs[] = {254, 255, 32767, 65535, 65536, 1 << 20, 0x7ffffff0};
  const int big = wl_pct(10) ? bigs[wl_pick(7)] : 0;
  fiber_semaphore_init(&sem, sinit + big);
  if (big) {
    if (fiber_semaphore_getvalue(&sem) != sinit + big)
      sim_violation("C06-value-at-rest", "semaphore created with %d units reports %d", sinit + big, fiber_semaphore_getvalue(&sem));
    for (int k = 0; k < 3; k++) { /* a few real operations up there */
      if (fiber_semaphore_trywait(&sem) != FIBER_SUCCESS) sim_violation("C06-trywait-failed-with-units", "trywait failed although %d units are available", sinit + big);
      fiber_semaphore_post(&sem);
    }
    atomic_fetch_sub(&sem.counter, big);
  }
  fiber_t* f[MAXFB + 16];
  if (nfib > MAXFB + 16) sim_violation("SIM-harness-table", "%d fibers", nfib);
  for (int i = 0; i < nfib; i++) f[i] = fiber_create(STK, fib, (void*)(intptr_t)i);
  /* other semaphores come and go while fibers wait on this one: their queue nodes are taken from and returned to
   * the runtime's shared node pool, which by then holds nodes this semaphore has retired */
  const int lifecycles = wl_pct(30) ? wl_int(1, 4) : 0;
  for (int r = 0; r < lifecycles; r++) {
    for (int k = 0; k < 6; k++) fiber_yield();
    fiber_semaphore_t* b = h_dirty_alloc(sizeof *b);
    fiber_semaphore_init(b, 1);
    if (fiber_semaphore_trywait(b) != FIBER_SUCCESS) sim_violation("C06-trywait-failed-with-units", "trywait on a fresh semaphore with 1 unit failed");
    fiber_semaphore_post(b);
    if (fiber_semaphore_getvalue(b) != 1) sim_violation("C06-value-at-rest", "second semaphore: value %d after trywait + post from 1", fiber_semaphore_getvalue(b));
    fiber_semaphore_destroy(b);
    free(b);
  }
  for (int i = 0; i < nfib; i++) fiber_join(f[i], NULL);
  int v = fiber_semaphore_getvalue(&sem);
  if (v != sinit + posts_done - successes)
    sim_violation("C06-value-at-rest", "value %d but initial %d + posts %d - successful waits %d = %d", v, sinit, posts_done, successes, sinit + posts_done - successes);
  fiber_semaphore_destroy(&sem);
  free(sem_p);
  h_fiber_end();
}
