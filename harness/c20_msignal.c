/* C20 (fibers) - multi-signal: a raise releases exactly one waiter or stays raised for the next wait;
 * never two waiters, never dropped while a fiber waits; waiter nodes are not touched after reclamation */
#include "common.h"
#include "fiber_manager.h"
#include "fiber_signal.h"
#include <unistd.h>

const char* const H_NAME = "c20_msignal";
const char* const H_PROPERTY = "C20";

#define MAXW 4
#define MAXR 3
static fiber_multi_signal_t ms;
static int strict_mode, nw, nr, quota[MAXW], rper[MAXR], total, yield_r;
static _Atomic int produced, consumed;
static int raises_invoked, wait_returns, woke_reported;

static NS void g_raise(void) { raises_invoked++; }
static NS void g_raise_ret(int r) {
  woke_reported += r;
  sim_progress();
}
static NS int g_sw(void) { return sim_fiber_switch_ins(sim_current_fiber()); }
static NS void g_wait_returned(int sw0) {
  wait_returns++;
  if (sim_fiber_switch_ins(sim_current_fiber()) != sw0) sim_nontrivial();
  if (wait_returns > raises_invoked)
    sim_violation("C20-two-released-by-one-raise", "%d multi-signal waits have returned but only %d raises were invoked", wait_returns, raises_invoked);
  sim_progress();
}
static int waiters_in_wait;
static NS void g_entering_wait(void) { waiters_in_wait++; }
static NS int g_all_waiting(void) { return waiters_in_wait == nw; }
static int try_claim(void) {
  int c = atomic_load(&consumed);
  while (c < atomic_load(&produced))
    if (atomic_compare_exchange_weak(&consumed, &c, c + 1)) return 1;
  return 0;
}
/* optionally waiter 0 first goes through another suspension mechanism: it blocks in read() on a pipe whose read
 * end a helper fiber closes under it (the mechanisms share the fiber's scratch word) */
static int pre_fd_wait, fdw_fd[2];
static volatile int fdw_in, fdw_done;
static fiber_t* fdw_fiber;
static NS int g_fdw_blocked(void) { return fdw_in && sim_fiber_lib_state(fdw_fiber) == FIBER_STATE_WAITING && sim_fiber_is_saved(fdw_fiber); }
static void* fd_closer(void* p) {
  (void)p;
  while (!fdw_done) {
    if (g_fdw_blocked()) {
      fdw_in = 0;
      close(fdw_fd[0]);
    }
    RS0(fiber_yield);
  }
  return NULL;
}
static void fd_wait_once(void) {
  unsigned char b[2];
  if (pipe(fdw_fd)) sim_violation("SIM-pipe", "pipe failed");
  fdw_in = 1;
  ssize_t r = read(fdw_fd[0], b, 1); /* resumed by the helper's close() */
  (void)r;
  fdw_in = 0;
  close(fdw_fd[1]);
}
static void* waiter(void* p) {
  const int w = (int)(intptr_t)p;
  if (pre_fd_wait && w == 0) fd_wait_once();
  if (strict_mode) {
    int sw = g_sw();
    g_entering_wait();
    fiber_multi_signal_wait(&ms);
    g_wait_returned(sw);
    return NULL;
  }
  int got = 0;
  while (got < quota[w]) {
    if (try_claim()) {
      got++;
      sim_progress();
      /* pending raises coalesce: whoever takes a unit and sees more of them passes the signal on */
      if (atomic_load(&consumed) < atomic_load(&produced)) {
        g_raise();
        g_raise_ret(fiber_multi_signal_raise(&ms));
      }
      continue;
    }
    int sw = g_sw();
    fiber_multi_signal_wait(&ms); /* a raise between the failed claim and this wait must not be lost */
    g_wait_returned(sw);
  }
  return NULL;
}
static void* raiser(void* p) {
  const int r = (int)(intptr_t)p;
  /* raise_strict busy-waits (without yielding) for a waiter: only legal once the waiters are on their way in */
  if (strict_mode)
    while (!g_all_waiting()) RS0(fiber_yield);
  for (int i = 0; i < rper[r]; i++) {
    if (strict_mode) {
      g_raise();
      fiber_multi_signal_raise_strict(&ms);
      g_raise_ret(1);
    } else {
      atomic_fetch_add(&produced, 1);
      g_raise();
      int x = fiber_multi_signal_raise(&ms);
      g_raise_ret(x);
    }
    if (yield_r) RS0(fiber_yield);
  }
  return NULL;
}
/* ---- scripted stale-snapshot scenario ("even when a node is popped, reused and pushed again while another
 * thread still holds a stale snapshot") ----
 * B and A wait; raiser R1 takes its snapshot (head = A's node, next = B's node) and is preempted right before
 * its double-word CAS; meanwhile A and B are released, a raise finds nobody and stays pending, C accepts it and
 * waits again, A waits again with the same node. Then R1 continues. Whatever the counter did in between, R1's
 * CAS must fail and its raise must be retried on the current list. Afterwards raises continue until A and C
 * have returned. Nobody is reclaimed before the end. */
static volatile int sc_b_woken, sc_a_woken, sc_a_go2, sc_a_done, sc_c_go, sc_c_accepted, sc_c_done, sc_r1_held, sc_r1_release, sc_r1_done, sc_finish;
static NS int sc_waiters(void) { /* number of fibers parked on the signal */
  mpsc_fifo_node_t* h = ms.data.head;
  int n = 0;
  while (h && h != FIBER_MULTI_SIGNAL_RAISED && n < 8) {
    n++;
    h = h->next;
  }
  return n;
}
static NS void sc_progress(void) { sim_progress(); }
static void* sc_b(void* p) {
  (void)p;
  fiber_multi_signal_wait(&ms);
  sc_b_woken = 1;
  sc_progress();
  while (!sc_finish) fiber_yield(); /* stays alive, is not waiting on anything */
  return NULL;
}
static void* sc_a(void* p) {
  (void)p;
  while (sc_waiters() < 1) fiber_yield(); /* B first, so that the list reads A -> B */
  fiber_multi_signal_wait(&ms);
  sc_a_woken = 1;
  sc_progress();
  while (!sc_a_go2) fiber_yield();
  fiber_multi_signal_wait(&ms); /* the same fiber, the same list node, pushed again */
  sc_a_done = 1;
  sc_progress();
  while (!sc_finish) fiber_yield();
  return NULL;
}
static void* sc_c(void* p) {
  (void)p;
  while (!sc_c_go) fiber_yield();
  fiber_multi_signal_wait(&ms); /* accepts the pending raise at once */
  sc_c_accepted = 1;
  sc_progress();
  fiber_multi_signal_wait(&ms);
  sc_c_done = 1;
  sc_progress();
  while (!sc_finish) fiber_yield();
  return NULL;
}
static void* sc_r1(void* p) {
  (void)p;
  while (sc_waiters() < 2) fiber_yield();
  sim_hold_before_dwcas(&sc_r1_held, &sc_r1_release, 60000);
  fiber_multi_signal_raise(&ms);
  sim_hold_before_dwcas(NULL, NULL, 0);
  sc_r1_done = 1;
  sc_progress();
  return NULL;
}
static void run_script(sim_cfg_t c) {
  sim_scenario("msignal-stale-snapshot-script");
  sim_describe("threads=%d scripted stale snapshot: B,A wait; R1 held before its CAS; A,B released; pending raise; C accepts and waits; A waits again; R1 continues preempt=1/%d", c.threads,
               c.preempt_inv);
  sim_nontrivial();
  sim_set_quiet_ns(400 * 5000000ull);
  sim_fiber_mode();
  fiber_manager_init(c.threads);
  fiber_multi_signal_init(&ms);
  fiber_t* f[4];
  f[0] = fiber_create(STK, sc_b, NULL);
  f[1] = fiber_create(STK, sc_a, NULL);
  f[2] = fiber_create(STK, sc_c, NULL);
  f[3] = fiber_create(STK, sc_r1, NULL);
  /* the driver (this fiber). Every wait below is bounded: if R1 gets away early (its hold times out) the
   * choreography is off but everything still terminates, because raises continue until A and C are through */
#define SC_UNTIL(cond)                                   \
  for (int g_ = 0; !(cond) && g_ < 4000; g_++) fiber_yield()
  SC_UNTIL(sc_r1_held || sc_r1_done);
  fiber_multi_signal_raise(&ms); /* releases A (head) */
  fiber_multi_signal_raise(&ms); /* releases B */
  SC_UNTIL(sc_a_woken && sc_b_woken);
  fiber_multi_signal_raise(&ms); /* nobody waits: stays pending */
  sc_c_go = 1;
  SC_UNTIL(sc_c_done || (sc_c_accepted && sc_waiters() >= 1)); /* C accepted it and waits again */
  sc_a_go2 = 1;
  SC_UNTIL(sc_a_done || sc_c_done || sc_waiters() >= 2); /* A waits again: its node is the head once more */
  sc_r1_release = 1;
  while (!sc_r1_done) fiber_yield();
  /* R1's raise and further ones: until both remaining waiters have returned (surplus raises stay pending) */
  while (!(sc_a_done && sc_c_done)) {
    fiber_multi_signal_raise(&ms);
    fiber_yield();
  }
  sc_finish = 1;
  for (int i = 0; i < 4; i++) fiber_join(f[i], NULL);
  h_fiber_end();
}
void h_run(void) {
  sim_cfg_t c = sim_config(1, 4, 0, FBIT(F_STALL));
  if (c.threads >= 2 && wl_pct(12)) {
    run_script(c);
    return;
  }
  strict_mode = wl_pct(25);
  nw = wl_int(1, MAXW);
  nr = wl_int(1, MAXR);
  yield_r = wl_pct(50);
  total = 0;
  if (strict_mode) {
    /* exactly one unconditional wait per waiter and as many strict raises */
    total = nw;
    int left = total;
    for (int r = 0; r < nr; r++) {
      rper[r] = r == nr - 1 ? left : wl_int(0, left);
      left -= rper[r];
    }
  } else {
    for (int w = 0; w < nw; w++) {
      quota[w] = wl_int(1, 3);
      total += quota[w];
    }
    int left = total;
    for (int r = 0; r < nr; r++) {
      rper[r] = r == nr - 1 ? left : wl_int(0, left);
      left -= rper[r];
    }
  }
  int waiters_first = wl_pct(50);
  pre_fd_wait = wl_pct(25);
  int early_join = wl_pct(50);
  sim_describe("threads=%d %s waiters=%d raisers=%d units=%d yield_r=%d preempt=1/%d", c.threads, strict_mode ? "raise_strict" : "raise", nw, nr, total, yield_r, c.preempt_inv);
  sim_fiber_mode();
  fiber_manager_init(c.threads);
  fiber_multi_signal_init(&ms);
  fiber_t *fw[MAXW], *fr[MAXR];
  if (waiters_first)
    for (int w = 0; w < nw; w++) fw[w] = fiber_create(STK, waiter, (void*)(intptr_t)w);
  for (int r = 0; r < nr; r++) fr[r] = fiber_create(STK, raiser, (void*)(intptr_t)r);
  if (!waiters_first)
    for (int w = 0; w < nw; w++) fw[w] = fiber_create(STK, waiter, (void*)(intptr_t)w);
  fdw_fiber = fw[0];
  fiber_t* closer = pre_fd_wait ? fiber_create(STK, fd_closer, NULL) : NULL;
  /* joining the waiters first lets them be reclaimed while raisers are still at work */
  /* raises can still be in progress while a waiter is reclaimed whenever waiters are joined before the raisers,
   * and always in the claim protocol, where the waiters themselves pass the signal on */
  if (early_join || !strict_mode) sim_scenario("msignal-waiters-reclaimed-while-raising");
  if (early_join) {
    for (int w = 0; w < nw; w++) fiber_join(fw[w], NULL);
    for (int r = 0; r < nr; r++) fiber_join(fr[r], NULL);
  } else {
    for (int r = 0; r < nr; r++) fiber_join(fr[r], NULL);
    for (int w = 0; w < nw; w++) fiber_join(fw[w], NULL);
  }
  fdw_done = 1;
  if (closer) fiber_join(closer, NULL);
  if (strict_mode && wait_returns != total) sim_violation("C20-strict-raise-count", "%d strict raises released %d waiters", total, wait_returns);
  fiber_multi_signal_destroy(&ms);
  h_fiber_end();
}
