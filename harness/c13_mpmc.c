/* C13 - MPMC FIFO is a linearizable queue (empty may also be reported during a push);
 * node retirement and reuse through hazard pointers */
#include "common.h"
#include "mpmc_fifo.h"

const char* const H_NAME = "c13_mpmc";
const char* const H_PROPERTY = "C13";

#define MAXTH 4
#define MAXOPS 8
static mpmc_fifo_t fifo, warm[4];
static int warmup[4];
static _Atomic(hazard_pointer_thread_record_t*) hp_head;
static int nth;
static struct {
  int n, op[MAXOPS];
} prog[MAXTH];
/* node pool: reclaimed nodes are poisoned and reused immediately (ABA) */
typedef struct pnode {
  mpmc_fifo_node_t n;
  int state; /* 0 fresh/in use, 1 reclaimed (in free list) */
  struct pnode* free_next;
} pnode_t;
static int far_nodes, free_mode;
static pnode_t* free_arr[128]; /* reclaimed nodes; reuse takes the node that was retired most recently two times out of three */
static int nfree_arr, reuse_ctr;
static pnode_t* free_list;
static int reclaimed_total, reused_total;
static long pushed_vals[64], popped_vals[64];
static int npushed, npopped;

static NS void reclaim_cb(void* gc_data, hazard_node_t* h) {
  (void)gc_data;
  pnode_t* p = (pnode_t*)h; /* hazard node is the first member */
  sim_tso_sync();           /* this helper writes the node directly */
  if (free_mode) {
    /* the node goes back to the allocator, which never hands the address out again: any later access by the
     * queue code is a dereference of a reclaimed node (MEM-use-after-free), a second callback a double free */
    reclaimed_total++;
    free(p);
    return;
  }
  if (p->state == 1) sim_violation("C13-reclaimed-twice", "node %p handed to the reclamation callback twice", (void*)p);
  p->state = 1;
  /* poison the payload: a thread that still dereferences this node reads garbage pointers */
  memset(&p->n.value, 0xFB, sizeof(p->n.value) + sizeof(p->n.prev) + sizeof(p->n.next));
  if (nfree_arr < 128) free_arr[nfree_arr++] = p;
  reclaimed_total++;
}
static NS mpmc_fifo_node_t* get_node(void) {
  pnode_t* p;
  sim_tso_sync();
  if (nfree_arr) {
    /* a scan hands the most recently retired node to the callback first, so it sits at the bottom */
    int k = (reuse_ctr++ % 3 == 2) ? nfree_arr - 1 : 0;
    p = free_arr[k];
    memmove(&free_arr[k], &free_arr[k + 1], sizeof(free_arr[0]) * (size_t)(nfree_arr - 1 - k));
    nfree_arr--;
    reused_total++;
  } else {
    /* every third fresh node lives more than 2 GiB above the others (the hazard scan sorts addresses) */
    static int fresh;
    p = far_nodes && (++fresh % 3 == 0) ? sim_alloc_high(sizeof *p) : malloc(sizeof *p);
  }
  p->state = 0;
  p->n.hazard.gc_data = NULL;
  p->n.hazard.gc_function = reclaim_cb;
  p->n.value = NULL;
  p->n.prev = p->n.next = NULL;
  return &p->n;
}
static NS int g_inv(int t, int op, long arg) { return hist_invoke(t, op, arg); }
static NS void g_ret(int idx, long res) {
  hist_return(idx, res);
  sim_progress();
}
static NS void g_pushed(long v) { pushed_vals[npushed++] = v; }
static NS void g_popped(long v) {
  for (int i = 0; i < npopped; i++)
    if (popped_vals[i] == v) sim_violation("C13-popped-twice", "value %#lx returned by two pops", v);
  int ok = 0;
  for (int i = 0; i < npushed; i++) ok |= pushed_vals[i] == v;
  if (!ok) sim_violation("C13-invented-value", "pop returned %#lx which was never pushed", v);
  popped_vals[npopped++] = v;
}
static void* thr(void* p) {
  const int t = (int)(intptr_t)p;
  hazard_pointer_thread_record_t* hptr = hazard_pointer_thread_record_create_and_push(&hp_head, MPMC_HAZARD_COUNT);
  int seq = 0;
  /* warm-up on a private queue, unrecorded and without preemption: fills this thread's retired list so that
   * the recorded pops below cross the scan threshold and nodes are reclaimed and reused (ABA) */
  sim_preempt_off();
  for (int k = 0; k < warmup[t]; k++) {
    mpmc_fifo_node_t* n = get_node();
    n->value = (void*)1;
    mpmc_fifo_push(hptr, &warm[t], n);
    mpmc_fifo_trypop(hptr, &warm[t]);
  }
  sim_preempt_on();
  for (int i = 0; i < prog[t].n; i++) {
    if (prog[t].op[i]) {
      long v = ((long)(t + 1) << 8) | (++seq);
      mpmc_fifo_node_t* n = get_node();
      n->value = (void*)v;
      g_pushed(v);
      int h = g_inv(t, OP_PUSH, v);
      mpmc_fifo_push(hptr, &fifo, n);
      g_ret(h, RES_OK);
    } else {
      int h = g_inv(t, OP_POP, 0);
      void* r = mpmc_fifo_trypop(hptr, &fifo);
      if (r) g_popped((long)r);
      g_ret(h, r ? (long)r : RES_EMPTY);
    }
  }
  return NULL;
}
void h_run(void) {
  sim_cfg_t c = sim_config(1, 1, 0, FBIT(F_STALL));
  nth = wl_int(2, MAXTH);
  int total = 0, pushes = 0;
  const int maxops = sim_tier_thorough() || wl_pct(30) ? MAXOPS : 6;
  for (int t = 0; t < nth; t++) {
    prog[t].n = wl_int(1, maxops);
    for (int i = 0; i < prog[t].n; i++) {
      prog[t].op[i] = wl_pct(45); /* slightly more pops than pushes: short queues, nodes cycle through quickly */
      pushes += prog[t].op[i];
    }
    total += prog[t].n;
    /* the scan threshold is 2 * records * slots; half of the time stop just short of it */
    warmup[t] = wl_pct(50) ? 2 * nth * MPMC_HAZARD_COUNT - wl_int(0, 3) : wl_int(0, 2 * (nth + 1) * MPMC_HAZARD_COUNT);
    if (warmup[t] < 0) warmup[t] = 0;
  }
  far_nodes = wl_pct(50);
  free_mode = wl_pct(35);
  const int tso = wl_pct(40);
  if (tso) sim_tso_enable_plain();
  sim_describe("threads=%d ops=%d pushes=%d far_apart_nodes=%d reclaim=%s tso=%d preempt=1/%d", nth, total, pushes, far_nodes, free_mode ? "free" : "reuse", tso, c.preempt_inv);
  if (nth >= 2 && total >= 3) sim_nontrivial();
  hist_reset(M_FIFO, 0);
  mpmc_fifo_init(&fifo, get_node());
  for (int t = 0; t < nth; t++) mpmc_fifo_init(&warm[t], get_node());
  pthread_t th[MAXTH];
  for (int t = 0; t < nth; t++) pthread_create(&th[t], NULL, thr, (void*)(intptr_t)t);
  for (int t = 0; t < nth; t++) pthread_join(th[t], NULL);
  /* drain: everything pushed and not yet popped comes out, in order */
  hazard_pointer_thread_record_t* hptr = hazard_pointer_thread_record_create_and_push(&hp_head, MPMC_HAZARD_COUNT);
  for (;;) {
    int h = g_inv(nth, OP_POP, 0);
    void* r = mpmc_fifo_trypop(hptr, &fifo);
    if (r) g_popped((long)r);
    g_ret(h, r ? (long)r : RES_EMPTY);
    if (!r) break;
  }
  if (npopped != npushed) sim_violation("C13-lost-value", "%d values pushed, %d popped after the final drain", npushed, npopped);
  /* teardown: a queue that still holds nodes is destroyed (every node is retired through the hazard-pointer
   * record, which may cross the scan threshold in the middle of the walk), then every record */
  const int leftover = wl_int(0, 3 * (nth + 1) * MPMC_HAZARD_COUNT);
  for (int k = 0; k < leftover; k++) {
    mpmc_fifo_node_t* n = get_node();
    n->value = (void*)(long)(0x7000 + k);
    mpmc_fifo_push(hptr, &fifo, n);
  }
  sim_probe("destroyed_with_nodes_queued", leftover > 0);
  mpmc_fifo_destroy(hptr, &fifo);
  hazard_pointer_thread_record_destroy_all(atomic_load(&hp_head));
  sim_probe("nodes_reclaimed", reclaimed_total);
  sim_probe("nodes_reused", reused_total);
  h_lin_verdict("C13-not-linearizable");
  sim_finish_ok();
}
