/* C12 - barrier: nobody passes round k before all arrived at round k; exactly
 * one serial fiber per round; everybody returns; immediate reuse. */
#include "common.h"
#include "fiber_barrier.h"
#include "fiber_manager.h"

const char* const H_NAME = "c12_barrier";
const char* const H_PROPERTY = "C12";

#define MAXR 6
static fiber_barrier_t* barp;
#define bar (*barp)
static int bcount, brounds, yield_mode;
static int arrived[MAXR], serial[MAXR], returned[MAXR];
static NS void g_new_phase(void) {
  memset(arrived, 0, sizeof arrived);
  memset(serial, 0, sizeof serial);
  memset(returned, 0, sizeof returned);
}

static NS void g_arrive(int k) { arrived[k]++; }
static NS void g_return(int k, int r, int who) {
  if (arrived[k] != bcount)
    sim_violation("C12-early-release", "fiber %d returned from its wait of round %d when only %d of %d fibers had entered that round", who, k, arrived[k], bcount);
  if (r == FIBER_BARRIER_SERIAL_FIBER) {
    if (++serial[k] > 1) sim_violation("C12-two-serial", "round %d: a second fiber was told it is the serial fiber", k);
  } else if (r != 0)
    sim_violation("C12-bad-return", "fiber_barrier_wait returned %d", r);
  returned[k]++;
  sim_progress();
}
static void* bfib(void* p) {
  const int who = (int)(intptr_t)p;
  for (int k = 0; k < brounds; k++) {
    if (yield_mode == 1 && ((who + k) & 1)) RS0(fiber_yield);
    g_arrive(k);
    int r = (int)RS1(fiber_barrier_wait, &bar);
    g_return(k, r, who);
    if (yield_mode == 2 && (who & 1)) RS0(fiber_yield);
  }
  return NULL;
}
void h_run(void) {
  sim_cfg_t c = sim_config(1, 4, 0, FBIT(F_STALL));
  bcount = wl_int(1, 5);
  brounds = wl_int(1, sim_tier_thorough() ? MAXR : 4);
  yield_mode = wl_pick(3);
  sim_describe("threads=%d count=%d rounds=%d yield_mode=%d preempt=1/%d cost=%dns", c.threads, bcount, brounds, yield_mode, c.preempt_inv, c.cost_ns);
  if (bcount >= 2 && (c.threads >= 2 || brounds >= 2)) sim_nontrivial();
  sim_fiber_mode();
  fiber_manager_init(c.threads);
  /* the barrier lives in heap memory with arbitrary previous contents; in a second phase the same object is
   * destroyed and initialised again for another number of fibers */
  barp = h_dirty_alloc(sizeof *barp);
  const int phases = wl_pct(25) ? 2 : 1;
  const int preset_k = wl_pct(15) ? wl_int(1, 2) : 0;
  for (int ph = 0; ph < phases; ph++) {
    if (ph) {
      fiber_barrier_destroy(&bar);
      bcount = wl_int(1, 5);
      brounds = wl_int(1, 3);
      g_new_phase();
    }
    fiber_barrier_init(&bar, bcount);
    /* "round after round": between rounds the arrival counter is the barrier's whole state; in some runs it is
     * moved to where a few hundred million earlier rounds would have left it - a multiple of count just below
     * 2^32 (or 2^33), so that the rounds of this run carry it across */
    if (preset_k) {
      const uint64_t target = ((uint64_t)preset_k << 32) - (uint64_t)wl_int(0, 2) * (uint64_t)bcount;
      bar.counter = target - target % (uint64_t)bcount;
      sim_probe("counter_preset", 1);
    }
    fiber_t* f[8];
    for (int i = 0; i < bcount; i++) f[i] = fiber_create(STK, bfib, (void*)(intptr_t)i);
    for (int i = 0; i < bcount; i++) fiber_join(f[i], NULL);
    for (int k = 0; k < brounds; k++) {
      if (serial[k] != 1) sim_violation("C12-serial-count", "round %d: %d fibers were told they are the serial fiber", k, serial[k]);
      if (returned[k] != bcount) sim_violation("C12-not-all-returned", "round %d: %d of %d returned", k, returned[k], bcount);
    }
  }
  fiber_barrier_destroy(&bar);
  free(barp);
  h_fiber_end();
}
