/* C03 - mutex: mutual exclusion, hand-off to exactly one waiter, no lost wake-up */
#define H_WITH_DEFERRED_UNLOCK
#include "common.h"
#include "fiber_event.h"
#include "fiber_manager.h"
#include "fiber_mutex.h"

const char* const H_NAME = "c03_mutex";
const char* const H_PROPERTY = "C03";

#define MAXFB 8
#define MAXOPS 6
static fiber_mutex_t* mtx; /* two mutexes in heap memory with arbitrary previous contents */
static int occ[2], owner[2];
static long counter[2], expected[2];
static int nfib, nmtx;
static struct {
  int nops;
  struct {
    int m, try_, cs;
  } op[MAXOPS];
} prog[MAXFB];

static NS void g_acquired(int m, int who, const char* how) {
  if (occ[m]) sim_violation("C03-two-owners", "fiber %d acquired mutex %d by %s while fiber %d holds it", who, m, how, owner[m]);
  occ[m] = 1;
  owner[m] = who;
}
static NS void g_release(int m, int who) {
  if (!occ[m] || owner[m] != who) sim_violation("C03-owner-mismatch", "fiber %d releases mutex %d held by %d (occ %d)", who, m, owner[m], occ[m]);
  occ[m] = 0;
  expected[m]++;
}
static NS void g_op_done(void) { sim_progress(); }
static NS int g_is_held(int m) { return occ[m]; }

static void critical(int m, int cs) {
  long v = counter[m]; /* non-atomic read-modify-write: lost update <=> two owners */
  if (cs == 1) RS0(fiber_yield);
  else if (cs == 2) fiber_sleep(0, 100);
  else if (cs == 3) { RS0(fiber_yield); RS0(fiber_yield); }
  counter[m] = v + 1;
}
static void* fib(void* p) {
  const int who = (int)(intptr_t)p;
  for (int i = 0; i < prog[who].nops; i++) {
    const int m = prog[who].op[i].m;
    if (prog[who].op[i].try_) {
      int held_before = g_is_held(m);
      (void)held_before;
      if (fiber_mutex_trylock(&mtx[m]) == FIBER_SUCCESS) {
        g_acquired(m, who, "trylock");
        critical(m, prog[who].op[i].cs);
        g_release(m, who);
        RS1(fiber_mutex_unlock, &mtx[m]);
      }
    } else {
      RS1(fiber_mutex_lock, &mtx[m]);
      g_acquired(m, who, "lock");
      critical(m, prog[who].op[i].cs);
      g_release(m, who);
      RS1(fiber_mutex_unlock, &mtx[m]);
    }
    g_op_done();
  }
  return NULL;
}
/* ---- a long line of real waiters: "for any number of contenders" ----
 * The main fiber holds the mutex. The first contender is descheduled (directed stall) between announcing
 * itself and linking its node into the wait queue, then rc_n more contenders queue up behind it - as long as
 * the first one has not linked its node, none of them can be reached from the head of the queue. The main
 * fiber unlocks while the line looks empty: the hand-off has to wait for the slow contender, and everybody
 * must get the mutex once. */
#define RC_MAX 320
static long rc_counter;
static int rc_n, rc_nth, rc_steps, rc_inside;
static NS void rc_progress(void) { sim_progress(); }
static NS void rc_enter(int who) {
  if (rc_inside) sim_violation("C03-two-owners", "long line of waiters: contender %d is inside the critical section together with another fiber", who);
  rc_inside = 1;
}
static NS void rc_leave(void) { rc_inside = 0; }
static void* rc_locker(void* p) {
  const int who = (int)(intptr_t)p;
  rc_progress();
  if (who == 0) sim_stall_after_rmw(rc_nth, rc_steps);
  fiber_mutex_lock(&mtx[0]);
  if (who == 0) sim_stall_after_rmw(0, 0);
  rc_enter(who);
  rc_counter++;
  rc_leave();
  fiber_mutex_unlock(&mtx[0]);
  rc_progress();
  return NULL;
}
static void run_long_line(void) {
  sim_cfg_t c = sim_config(2, 3, 0, FBIT(F_STALL));
  rc_n = wl_pct(70) ? wl_int(124, 134) : wl_int(3, RC_MAX - 1);
  rc_nth = wl_int(1, 2);
  rc_steps = wl_int(1, 8) * 40000;
  sim_scenario("long-line-of-waiters");
  sim_describe("threads=%d a slow first contender (descheduled for %d steps after its %d. atomic read-modify-write) and %d more behind it; the holder unlocks while the line cannot be walked", c.threads,
               rc_steps, rc_nth, rc_n);
  sim_nontrivial();
  sim_fiber_mode();
  fiber_manager_init(c.threads);
  mtx = h_dirty_alloc(2 * sizeof *mtx);
  fiber_mutex_init(&mtx[0]);
  static fiber_t* f[RC_MAX + 1];
  fiber_mutex_lock(&mtx[0]);
  rc_enter(-1);
  f[0] = fiber_create(STK, rc_locker, (void*)(intptr_t)0);
  for (int k = 0; k < 400 && atomic_load(&mtx[0].counter) >= 0; k++) fiber_yield(); /* the slow one has announced itself */
  for (int i = 1; i <= rc_n; i++) f[i] = fiber_create(32768, rc_locker, (void*)(intptr_t)i);
  for (int k = 0; k < 30 * rc_n + 400 && atomic_load(&mtx[0].counter) > -(rc_n + 1); k++) fiber_yield(); /* ... and so has everybody else */
  if (atomic_load(&mtx[0].counter) <= -128) sim_probe("unlock_with_128_or_more_waiters", 1);
  rc_counter++;
  rc_leave();
  fiber_mutex_unlock(&mtx[0]);
  for (int i = 0; i <= rc_n; i++) fiber_join(f[i], NULL);
  if (rc_counter != rc_n + 2) sim_violation("C03-lost-update", "long line of waiters: %d critical sections ran but the counter they increment reads %ld", rc_n + 2, rc_counter);
  if (mtx[0].counter != 1) sim_violation("C03-state-at-rest", "long line of waiters: counter %d after all fibers finished (1 = free)", (int)mtx[0].counter);
  fiber_mutex_destroy(&mtx[0]);
  free(mtx);
  h_fiber_end();
}
void h_run(void) {
  if (wl_pct(3)) {
    run_long_line();
    return;
  }
  if (wl_pct(15)) { /* the unlock that fiber_cond_wait defers to the next fiber of the thread */
    h_deferred_unlock_scenario("C03-state-at-rest");
    return;
  }
  sim_cfg_t c = sim_config(1, 4, 0, FBIT(F_STALL));
  nfib = wl_int(2, 6);
  nmtx = wl_int(1, 2);
  int blocking = 0;
  for (int f = 0; f < nfib; f++) {
    prog[f].nops = wl_int(1, sim_tier_thorough() ? MAXOPS : 4);
    for (int i = 0; i < prog[f].nops; i++) {
      prog[f].op[i].m = wl_pick(nmtx);
      prog[f].op[i].try_ = wl_pct(20);
      prog[f].op[i].cs = wl_pick(4);
      blocking += !prog[f].op[i].try_;
    }
  }
  sim_describe("threads=%d fibers=%d mutexes=%d blocking_locks=%d preempt=1/%d (a crowd of phantom contenders is drawn later)", c.threads, nfib, nmtx, blocking, c.preempt_inv);
  if (blocking >= 2) sim_nontrivial();
  sim_fiber_mode();
  fiber_manager_init(c.threads);
  mtx = h_dirty_alloc(2 * sizeof *mtx);
  for (int m = 0; m < nmtx; m++) fiber_mutex_init(&mtx[m]);
  fiber_t* f[MAXFB];
  /* "for any number of contenders": in some runs the main fiber holds mutex 0 while the fibers start, and the
   * mutex looks as if `crowd` more contenders had announced themselves and were still on their way to the wait
   * queue (each announcement is one decrement of the counter; nothing else of a contender exists at that
   * point). Nobody may get in while the main fiber holds it. Before the main fiber unlocks, the phantom
   * announcements are taken back, so that the hand-off only deals with fibers that exist. */
  static const int crowds[] = {126, 254, 32766, 65534, 65535, 65536, 1 << 20};
  const int crowd = wl_pct(12) ? crowds[wl_pick(7)] - wl_int(0, 2) : 0;
  if (crowd) {
    fiber_mutex_lock(&mtx[0]);
    g_acquired(0, 99, "lock (main fiber)");
    atomic_fetch_sub(&mtx[0].counter, crowd);
    sim_probe("phantom_contenders", 1);
  }
  for (int i = 0; i < nfib; i++) f[i] = fiber_create(STK, fib, (void*)(intptr_t)i);
  if (crowd) {
    for (int k = 0; k < 12 + 4 * nfib; k++) fiber_yield();
    atomic_fetch_add(&mtx[0].counter, crowd);
    counter[0]++; /* the main fiber's critical section counts like any other */
    g_release(0, 99);
    fiber_mutex_unlock(&mtx[0]);
  }
  for (int i = 0; i < nfib; i++) fiber_join(f[i], NULL);
  for (int m = 0; m < nmtx; m++) {
    if (counter[m] != expected[m]) sim_violation("C03-lost-update", "mutex %d: %ld critical sections ran but the counter they increment reads %ld", m, expected[m], counter[m]);
    if (mtx[m].counter != 1) sim_violation("C03-state-at-rest", "mutex %d: counter %d after all fibers finished (1 = free)", m, (int)mtx[m].counter);
  }
  /* teardown: the objects go away, nothing of the runtime may touch them afterwards (memory oracle) */
  for (int m = 0; m < nmtx; m++) fiber_mutex_destroy(&mtx[m]);
  free(mtx);
  h_fiber_end();
}
