/* C01 / C02(b) / C19(a) - mixed programs over the whole runtime.  Several independent, individually
 * deadlock-free modules (one per primitive) run side by side on 1-4 kernel threads; the oracles are the
 * ghosts of the runtime itself: fiber state machine at every switch (C01), wake-up and run-queue
 * accounting (C02), register/stack shim on every suspending call (C19), allocator shadow. */
#include <unistd.h>

#include "common.h"
#include "fiber_barrier.h"
#include "fiber_channel.h"
#include "fiber_cond.h"
#include "fiber_event.h"
#include "fiber_manager.h"
#include "fiber_rwlock.h"
#include "fiber_semaphore.h"
#undef _FIBER_CHANNEL_H_
#include "fiber_multi_channel.h"

/* built three times: assembly switch + malloc stacks (as every other whole-runtime harness), assembly switch +
 * mmap stacks ("c01_mixed_mmap"), ucontext back-end + malloc stacks ("c01_mixed_uctx") */
#ifndef H_VARIANT_NAME
#define H_VARIANT_NAME "c01_mixed"
#endif
const char* const H_NAME = H_VARIANT_NAME;
const char* const H_PROPERTY = "C01";

enum { M_YIELD = 0, M_MUTEX, M_COND, M_SEM, M_RW, M_BARRIER, M_CHAN, M_MULTI, M_SLEEP, M_DETACH, M_PIPE, M_CLOSESIG, M_STORM, M_MSIG, M_TRYJOIN, M_JOINDETACH, M_NKINDS };
#define MAXMOD 5
#define MAXF 96
typedef struct mod {
  int kind, a, b, c;
  fiber_mutex_t mtx;
  fiber_cond_t cond;
  fiber_semaphore_t sem;
  fiber_rwlock_t rw;
  fiber_barrier_t bar;
  fiber_signal_t sig;
  fiber_unbounded_channel_t uch;
  fiber_multi_channel_t* mch;
  int tokens, occ, readers, writers, pfd[2];
  volatile int got;
  volatile int flag;
  fiber_t* waiter_fiber;
  fiber_multi_signal_t msig;
  _Atomic int ms_produced, ms_consumed;
} mod_t;
static mod_t M[MAXMOD];
static int nmod;
static fiber_t* fibers[MAXF];
static int nf;

static NS void chk(int cond, const char* oracle, const char* what) {
  if (!cond) sim_violation(oracle, "%s", what);
}
static NS void op_done(void) { sim_progress(); }
/* ghost counters are updated in uninstrumented code: two readers legitimately run concurrently */
static NS void g_mutex_in(mod_t* m) { chk(m->occ++ == 0, "C03-two-owners", "mixed program: two fibers inside the mutex"); }
static NS void g_mutex_out(mod_t* m) { m->occ--; }
static NS void g_w_in(mod_t* m) { chk(m->writers++ == 0 && m->readers == 0, "C07-writer-not-alone", "mixed program: writer not alone"); }
static NS void g_w_out(mod_t* m) { m->writers--; }
static NS void g_r_in(mod_t* m) {
  m->readers++;
  chk(m->writers == 0, "C07-reader-with-writer", "mixed program: reader with writer");
}
static NS void g_r_out(mod_t* m) { m->readers--; }

typedef struct {
  mod_t* m;
  int role;
} arg_t;
static arg_t args[MAXF];

static void* f_yield(void* p) {
  arg_t* a = p;
  for (int i = 0; i < a->m->a; i++) {
    RS0(fiber_yield);
    op_done();
  }
  return NULL;
}
static void* f_mutex(void* p) {
  arg_t* a = p;
  mod_t* m = a->m;
  for (int i = 0; i < m->a; i++) {
    RS1(fiber_mutex_lock, &m->mtx);
    g_mutex_in(m);
    if ((i + a->role) & 1) RS0(fiber_yield);
    g_mutex_out(m);
    RS1(fiber_mutex_unlock, &m->mtx);
    op_done();
  }
  return NULL;
}
static void* f_cond(void* p) {
  arg_t* a = p;
  mod_t* m = a->m;
  for (int i = 0; i < m->a; i++) {
    RS1(fiber_mutex_lock, &m->mtx);
    if (a->role == 0) {
      while (m->tokens == 0) RS2(fiber_cond_wait, &m->cond, &m->mtx);
      m->tokens--;
      RS1(fiber_mutex_unlock, &m->mtx);
    } else {
      m->tokens++;
      if (m->b) fiber_cond_broadcast(&m->cond);
      else fiber_cond_signal(&m->cond);
      RS1(fiber_mutex_unlock, &m->mtx);
      if (m->c) RS0(fiber_yield);
    }
    op_done();
  }
  return NULL;
}
static void* f_sem(void* p) {
  arg_t* a = p;
  mod_t* m = a->m;
  for (int i = 0; i < m->a; i++) {
    if (a->role == 0) RS1(fiber_semaphore_wait, &m->sem);
    else {
      if (m->c) RS0(fiber_yield);
      RS1(fiber_semaphore_post, &m->sem);
    }
    op_done();
  }
  return NULL;
}
static void* f_rw(void* p) {
  arg_t* a = p;
  mod_t* m = a->m;
  for (int i = 0; i < m->a; i++) {
    if (a->role == 0) {
      RS1(fiber_rwlock_wrlock, &m->rw);
      g_w_in(m);
      RS0(fiber_yield);
      g_w_out(m);
      RS1(fiber_rwlock_wrunlock, &m->rw);
    } else {
      RS1(fiber_rwlock_rdlock, &m->rw);
      g_r_in(m);
      if (m->c) RS0(fiber_yield);
      g_r_out(m);
      RS1(fiber_rwlock_rdunlock, &m->rw);
    }
    op_done();
  }
  return NULL;
}
static void* f_barrier(void* p) {
  arg_t* a = p;
  for (int i = 0; i < a->m->a; i++) {
    RS1(fiber_barrier_wait, &a->m->bar);
    op_done();
  }
  return NULL;
}
static void* f_chan(void* p) {
  arg_t* a = p;
  mod_t* m = a->m;
  for (int i = 0; i < m->a; i++) {
    if (a->role == 0) {
      fiber_unbounded_channel_message_t* msg = fiber_unbounded_channel_receive(&m->uch);
      chk((long)msg->data == i + 1, "C11-out-of-order", "mixed program: unbounded channel order");
      free(msg);
    } else {
      fiber_unbounded_channel_message_t* msg = malloc(sizeof *msg);
      msg->data = (void*)(long)(i + 1);
      fiber_unbounded_channel_send(&m->uch, msg);
      if (m->c) RS0(fiber_yield);
    }
    op_done();
  }
  return NULL;
}
static void* f_multi(void* p) {
  arg_t* a = p;
  mod_t* m = a->m;
  for (int i = 0; i < m->a; i++) {
    if (a->role == 0) {
      long v = (long)fiber_multi_channel_receive(m->mch);
      chk(v >= 1 && v <= 64, "C11-invented-message", "mixed program: multi channel value");
    } else
      fiber_multi_channel_send(m->mch, (void*)(long)(i + 1));
    op_done();
  }
  return NULL;
}
static void* f_sleep(void* p) {
  arg_t* a = p;
  for (int i = 0; i < a->m->a; i++) {
    uint64_t t0 = sim_now();
    fiber_sleep(0, (uint32_t)a->m->b);
    chk(sim_now() - t0 >= (uint64_t)a->m->b * 1000, "C09-early-wake", "mixed program: sleep returned early");
    op_done();
  }
  return NULL;
}
static void* f_detached(void* p) {
  arg_t* a = p;
  for (int i = 0; i < a->m->a; i++) RS0(fiber_yield);
  a->m->flag = 1;
  return NULL;
}
/* a fiber that finishes while another one polls fiber_tryjoin on it and yields straight after the success */
static void* f_tj_target(void* p) {
  arg_t* a = p;
  for (int i = 0; i < a->m->a - 1; i++) RS0(fiber_yield);
  return (void*)(intptr_t)(0x7100 + a->m->a);
}
static void* f_tj_poller(void* p) {
  arg_t* a = p;
  mod_t* m = a->m;
  void* res = NULL;
  while (fiber_tryjoin(m->waiter_fiber, &res) != FIBER_SUCCESS) RS0(fiber_yield);
  chk(res == (void*)(intptr_t)(0x7100 + m->a), "C04-wrong-result", "mixed program: tryjoin delivered a wrong result");
  if (m->c) RS0(fiber_yield);
  op_done();
  return NULL;
}
/* a fiber is detached by a third fiber while another one is blocked joining it and it is still running */
static NS int g_joiner_registered(mod_t* m) { return atomic_load(&m->waiter_fiber->detach_state) == FIBER_DETACH_WAIT_TO_JOIN; }
static void* f_jd(void* p) {
  arg_t* a = p;
  mod_t* m = a->m;
  if (a->role == 0) { /* target: alive until the detacher is done */
    for (int i = 0; i < m->a; i++) RS0(fiber_yield);
    while (!m->got) RS0(fiber_yield);
    m->flag = 1;
    return (void*)0x7d00;
  }
  if (a->role == 1) { /* joiner */
    void* res = NULL;
    chk(fiber_join(m->waiter_fiber, &res) != FIBER_SUCCESS, "C04-join-before-return", "mixed program: fiber_join succeeded although the fiber was detached while still running");
    op_done();
    return NULL;
  }
  while (!g_joiner_registered(m)) RS0(fiber_yield);
  chk(fiber_detach(m->waiter_fiber) == FIBER_SUCCESS, "C04-detach-failed", "mixed program: fiber_detach failed");
  m->got = 1;
  op_done();
  return NULL;
}
static void* f_pipe(void* p) {
  arg_t* a = p;
  mod_t* m = a->m;
  unsigned char buf[8];
  if (a->role == 0) {
    int total = 0;
    while (total < m->a * 4) {
      ssize_t r = read(m->pfd[0], buf, sizeof buf);
      chk(r > 0, "C08-empty-transfer", "mixed program: pipe read returned <= 0");
      for (ssize_t k = 0; k < r; k++) chk(buf[k] == (unsigned char)(total + k), "C08-data-corrupt", "mixed program: pipe byte order");
      total += (int)r;
      op_done();
    }
  } else {
    for (int i = 0; i < m->a; i++) {
      for (int k = 0; k < 4; k++) buf[k] = (unsigned char)(i * 4 + k);
      int off = 0;
      while (off < 4) {
        ssize_t w = write(m->pfd[1], buf + off, 4 - off);
        if (w <= 0) sim_violation("C08-empty-transfer", "mixed program: pipe write returned %zd errno %d", w, errno);
        off += (int)w;
      }
      op_done();
    }
  }
  return NULL;
}
/* one fiber goes through different suspension mechanisms in a row: blocked on a descriptor that another
 * fiber closes, then waiting on a signal that a third fiber raises (the mechanisms share fiber_t.scratch) */
static NS int g_blocked_on_fd(fiber_t* f) { return sim_fiber_lib_state(f) == FIBER_STATE_WAITING && sim_fiber_is_saved(f); }
static void* f_closesig(void* p) {
  arg_t* a = p;
  mod_t* m = a->m;
  unsigned char b[4];
  if (a->role == 0) {
    for (int i = 0; i < m->a; i++) {
      ssize_t r = read(m->pfd[0], b, sizeof b); /* resumed by close() of the descriptor, or by data */
      (void)r;
      m->got = 1;
      fiber_signal_wait(&m->sig);
      m->got = 2;
      op_done();
      if (i + 1 < m->a) {
        /* next round needs a fresh pipe */
        while (m->flag != 2) RS0(fiber_yield);
        m->flag = 0;
      }
    }
  } else if (a->role == 1) { /* closer */
    for (int i = 0; i < m->a; i++) {
      while (!g_blocked_on_fd(m->waiter_fiber)) RS0(fiber_yield);
      close(m->pfd[0]);
      m->flag = 1;
      op_done();
      while (m->flag != 0 && i + 1 < m->a) RS0(fiber_yield);
    }
  } else { /* raiser */
    for (int i = 0; i < m->a; i++) {
      while (m->flag != 1) RS0(fiber_yield);
      if (m->c) RS0(fiber_yield);
      fiber_signal_raise(&m->sig);
      while (m->got != 2) RS0(fiber_yield);
      close(m->pfd[1]);
      m->got = 0;
      if (i + 1 < m->a && pipe(m->pfd) != 0) sim_violation("SIM-pipe", "pipe() failed");
      m->flag = 2;
      op_done();
    }
  }
  return NULL;
}
/* "storm": everything that defers an action to the next fiber's maintenance step at once, on one mutex:
 * condition waits (deferred mutex unlock, which yields when a contender is half enqueued), hammering lockers
 * (such contenders), signal waits and joins (deferred wake-up location), short sleeps (deferred spinlock) */
static void* f_storm_child(void* p) {
  (void)p;
  return NULL;
}
static void* f_storm(void* p) {
  arg_t* a = p;
  mod_t* m = a->m;
  const int n = 2 + m->a;
  switch (a->role) {
    case 0: /* cond waiter */
      for (int i = 0; i < n; i++) {
        RS1(fiber_mutex_lock, &m->mtx);
        while (m->tokens == 0) RS2(fiber_cond_wait, &m->cond, &m->mtx);
        m->tokens--;
        RS1(fiber_mutex_unlock, &m->mtx);
        op_done();
      }
      break;
    case 1: /* signaller */
      for (int i = 0; i < n; i++) {
        RS1(fiber_mutex_lock, &m->mtx);
        m->tokens++;
        fiber_cond_signal(&m->cond);
        RS1(fiber_mutex_unlock, &m->mtx);
        op_done();
      }
      break;
    case 2: /* hammer */
      for (int i = 0; i < 3 * n; i++) {
        fiber_mutex_lock(&m->mtx);
        fiber_mutex_unlock(&m->mtx);
        op_done();
      }
      break;
    case 3: /* spawner: create + join short fibers */
      for (int i = 0; i < n; i++) {
        fiber_t* c = fiber_create(STK, f_storm_child, NULL);
        fiber_join(c, NULL);
        op_done();
      }
      break;
    case 4: /* signal waiter */
      for (int i = 0; i < n; i++) {
        fiber_signal_wait(&m->sig);
        op_done();
      }
      m->flag = 1;
      break;
    case 5: /* signal raiser: keeps raising until the waiter has had enough (raises coalesce) */
      while (!m->flag) {
        fiber_signal_raise(&m->sig);
        RS0(fiber_yield);
      }
      break;
    default: /* sleeper */
      for (int i = 0; i < n; i++) {
        fiber_sleep(0, 0);
        op_done();
      }
  }
  return NULL;
}
/* multi-signal: waiters claim units, the raiser produces them; waiters outlive the raiser (the library reads a
 * waiter's list node while raising - known finding KF-C20-1 - so a waiter must not be reclaimed before that) */
static int ms_try_claim(mod_t* m) {
  int c = atomic_load(&m->ms_consumed);
  while (c < atomic_load(&m->ms_produced))
    if (atomic_compare_exchange_weak(&m->ms_consumed, &c, c + 1)) return 1;
  return 0;
}
static void* f_msig(void* p) {
  arg_t* a = p;
  mod_t* m = a->m;
  if (a->role == 0) {
    int got = 0;
    while (got < m->a) {
      if (ms_try_claim(m)) {
        got++;
        op_done();
        if (atomic_load(&m->ms_consumed) < atomic_load(&m->ms_produced)) fiber_multi_signal_raise(&m->msig);
        continue;
      }
      fiber_multi_signal_wait(&m->msig);
    }
    while (!m->flag) RS0(fiber_yield);
  } else {
    const int total = m->a * (1 + m->b);
    for (int i = 0; i < total; i++) {
      atomic_fetch_add(&m->ms_produced, 1);
      fiber_multi_signal_raise(&m->msig);
      if (m->c) RS0(fiber_yield);
      op_done();
    }
    while (atomic_load(&m->ms_consumed) < total) RS0(fiber_yield);
    m->flag = 1;
  }
  return NULL;
}
static void spawn(void* (*fn)(void*), mod_t* m, int role) {
  if (nf >= MAXF) sim_violation("SIM-too-many-fibers", "harness table full");
  args[nf].m = m;
  args[nf].role = role;
  fibers[nf] = fiber_create(STK, fn, &args[nf]);
  nf++;
}
void h_run(void) {
  sim_cfg_t c = sim_config(1, 4, 20, FBIT(F_STALL) | FBIT(F_SHORT_IO) | FBIT(F_SPURIOUS) | FBIT(F_DELAY_REPORT) | FBIT(F_EINTR));
  nmod = wl_int(1, sim_tier_thorough() ? MAXMOD : 4);
  char d[400];
  int dk = 0;
  static const char* const kn[] = {"yield", "mutex", "cond", "sem", "rwlock", "barrier", "chan", "multi", "sleep", "detach", "pipe", "close-then-signal", "storm", "multi-signal", "tryjoin-poll", "join-then-detached"};
  for (int i = 0; i < nmod; i++) {
    M[i].kind = wl_pct(25) ? M_STORM : wl_pick(M_NKINDS);
    M[i].a = wl_int(1, 4);
    M[i].b = wl_pick(2);
    M[i].c = wl_pick(2);
    if (M[i].kind == M_SLEEP) M[i].b = wl_int(0, 12000);
    dk += snprintf(d + dk, sizeof d - dk, "%s(%d,%d,%d) ", kn[M[i].kind], M[i].a, M[i].b, M[i].c);
  }
  sim_describe("threads=%d modules: %s preempt=1/%d cost=%dns", c.threads, d, c.preempt_inv, c.cost_ns);
  sim_set_quiet_ns(200 * 5000000ull);
  simk_set_capacity(1 << wl_int(0, 6));
  sim_fiber_mode();
  fiber_manager_init(c.threads);
  fiber_t* detached[MAXMOD];
  int ndet = 0;
  for (int i = 0; i < nmod; i++) {
    mod_t* m = &M[i];
    switch (m->kind) {
      case M_YIELD:
        spawn(f_yield, m, 0);
        spawn(f_yield, m, 1);
        break;
      case M_MUTEX:
        fiber_mutex_init(&m->mtx);
        for (int k = 0; k < 2 + m->b; k++) spawn(f_mutex, m, k);
        break;
      case M_COND:
        fiber_mutex_init(&m->mtx);
        fiber_cond_init(&m->cond);
        spawn(f_cond, m, 0);
        spawn(f_cond, m, 1);
        break;
      case M_SEM:
        fiber_semaphore_init(&m->sem, 0);
        spawn(f_sem, m, 0);
        spawn(f_sem, m, 1);
        break;
      case M_RW:
        fiber_rwlock_init(&m->rw);
        spawn(f_rw, m, 0);
        spawn(f_rw, m, 1);
        if (m->b) spawn(f_rw, m, 2);
        break;
      case M_BARRIER:
        fiber_barrier_init(&m->bar, 2 + m->b);
        for (int k = 0; k < 2 + m->b; k++) spawn(f_barrier, m, k);
        break;
      case M_CHAN:
        fiber_signal_init(&m->sig);
        fiber_unbounded_channel_init(&m->uch, &m->sig);
        spawn(f_chan, m, 0);
        spawn(f_chan, m, 1);
        break;
      case M_MULTI:
        m->mch = fiber_multi_channel_create(1);
        spawn(f_multi, m, 0);
        spawn(f_multi, m, 1);
        if (m->b) {
          spawn(f_multi, m, 0);
          spawn(f_multi, m, 1);
        }
        break;
      case M_SLEEP:
        spawn(f_sleep, m, 0);
        break;
      case M_DETACH: {
        args[nf].m = m;
        args[nf].role = 0;
        fiber_t* f = fiber_create(STK, f_detached, &args[nf]);
        nf++;
        fibers[nf - 1] = NULL;
        if (m->c) fiber_yield();
        fiber_detach(f);
        detached[ndet++] = f;
        break;
      }
      case M_TRYJOIN:
        spawn(f_tj_target, m, 0);
        m->waiter_fiber = fibers[nf - 1];
        fibers[nf - 1] = NULL; /* joined by the poller */
        if (m->b) fiber_yield();
        spawn(f_tj_poller, m, 1);
        break;
      case M_JOINDETACH:
        spawn(f_jd, m, 0);
        m->waiter_fiber = fibers[nf - 1];
        detached[ndet++] = fibers[nf - 1];
        fibers[nf - 1] = NULL;
        spawn(f_jd, m, 1);
        if (m->b) fiber_yield();
        spawn(f_jd, m, 2);
        break;
      case M_PIPE:
        if (pipe(m->pfd) != 0) sim_violation("SIM-pipe", "pipe() failed");
        spawn(f_pipe, m, 0);
        spawn(f_pipe, m, 1);
        break;
      case M_MSIG:
        fiber_multi_signal_init(&m->msig);
        spawn(f_msig, m, 0);
        if (m->b) spawn(f_msig, m, 0);
        spawn(f_msig, m, 1);
        break;
      case M_STORM:
        fiber_mutex_init(&m->mtx);
        fiber_cond_init(&m->cond);
        fiber_signal_init(&m->sig);
        spawn(f_storm, m, 0);
        spawn(f_storm, m, 1);
        spawn(f_storm, m, 2);
        if (m->b) spawn(f_storm, m, 2);
        spawn(f_storm, m, 3);
        spawn(f_storm, m, 4);
        spawn(f_storm, m, 5);
        if (m->c) spawn(f_storm, m, 6);
        break;
      case M_CLOSESIG:
        if (pipe(m->pfd) != 0) sim_violation("SIM-pipe", "pipe() failed");
        fiber_signal_init(&m->sig);
        if (m->a > 2) m->a = 2;
        spawn(f_closesig, m, 0);
        m->waiter_fiber = fibers[nf - 1];
        spawn(f_closesig, m, 1);
        spawn(f_closesig, m, 2);
        break;
    }
    if (wl_pct(30)) fiber_yield();
  }
  if (c.threads >= 2) sim_nontrivial();
  for (int i = 0; i < nf; i++)
    if (fibers[i]) fiber_join(fibers[i], NULL);
  for (int i = 0; i < nmod; i++)
    if (M[i].kind == M_DETACH || M[i].kind == M_JOINDETACH)
      while (!M[i].flag) fiber_sleep(0, 1000);
  sim_drain();
  for (int i = 0; i < ndet; i++)
    if (!sim_fiber_dead(detached[i])) sim_violation("C04-not-reclaimed", "detached fiber finished but was not reclaimed by quiescence");
  sim_probe("migrations", sim_migrations());
  sim_check_quiescent();
  sim_finish_ok();
}
