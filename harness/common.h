/* helpers shared by all harnesses (harness TUs are instrumented; functions
 * marked NS are not and therefore atomic with respect to the simulated schedule) */
#ifndef H_COMMON_H
#define H_COMMON_H
#include <errno.h>
#include <stdint.h>
#include <stdio.h>
#include <stdlib.h>
#include <string.h>

#include "sim.h"

#define STK 65536

extern long regshim_call2(void* fn, void* a1, void* a2, const uint64_t vals[6], long* result);

/* C19 oracle riding on every blocking call of every fiber harness: callee-saved
 * registers and a stack canary frame must survive the call (suspension,
 * migration, steal). */
static NS uint64_t rs_mix(uint64_t x) {
  x ^= x >> 33;
  x *= 0xff51afd7ed558ccdull;
  x ^= x >> 33;
  x *= 0xc4ceb9fe1a85ec53ull;
  x ^= x >> 33;
  return x;
}
static NS long rs_call(void* fn, void* a1, void* a2) {
  static uint64_t ctr;
  uint64_t vals[6];
  volatile uint64_t canary[8];
  uint64_t base = rs_mix(++ctr * 0x9e3779b97f4a7c15ull);
  for (int i = 0; i < 6; i++) vals[i] = rs_mix(base + i);
  for (int i = 0; i < 8; i++) canary[i] = rs_mix(base + 100 + i);
  long res = 0;
  long mask = regshim_call2(fn, a1, a2, vals, &res);
  if (mask) sim_violation("C19-register-clobbered", "callee-saved register mask 0x%lx changed across a suspending call", mask);
  for (int i = 0; i < 8; i++)
    if (canary[i] != rs_mix(base + 100 + i)) sim_violation("C19-stack-clobbered", "stack canary word %d changed across a suspending call", i);
  sim_probe("c19_shim_calls", 1);
  return res;
}
#define RS0(fn) rs_call((void*)(fn), 0, 0)
#define RS1(fn, a) rs_call((void*)(fn), (void*)(a), 0)
#define RS2(fn, a, b) rs_call((void*)(fn), (void*)(a), (void*)(b))

static NS void h_fiber_end(void) {
  sim_drain();
  sim_check_quiescent();
  sim_finish_ok();
}
/* ---- helpers for data-structure harnesses (plain threads under the baton) ---- */
#include <pthread.h>
static NS void h_lin_verdict(const char* oracle) {
  static char msg[3000];
  int r = hist_check(msg, sizeof msg);
  if (r == -1) sim_violation(oracle, "%s", msg);
  if (r == -2) sim_probe("lin_inconclusive", 1);
}

/* the object under test lives in heap memory that held something else before: an init function that leaves a
 * field untouched shows (the pattern is part of the program, so it shrinks and replays) */
static NS __attribute__((unused)) void* h_dirty_alloc(size_t n) {
  static const unsigned char pat[] = {0x00, 0xA5, 0xFF, 0x01, 0x7F};
  void* p = malloc(n);
  memset(p, pat[wl_pick(5)], n);
  return p;
}
#endif
