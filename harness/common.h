/* helpers shared by all harnesses (harness TUs are instrumented; functions
 * marked NS are not and therefore atomic with respect to the simulated schedule) */
#ifndef H_COMMON_H
#define H_COMMON_H
#include <errno.h>
#include <stdint.h>
#include <stdio.h>
#include <stdlib.h>
#include <string.h>

#include "sim.h"

#define STK 65536

extern long regshim_call2(void* fn, void* a1, void* a2, const uint64_t vals[6], long* result);

/* C19 oracle riding on every blocking call of every fiber harness: callee-saved
 * registers and a stack canary frame must survive the call (suspension,
 * migration, steal). */
static NS uint64_t rs_mix(uint64_t x) {
  x ^= x >> 33;
  x *= 0xff51afd7ed558ccdull;
  x ^= x >> 33;
  x *= 0xc4ceb9fe1a85ec53ull;
  x ^= x >> 33;
  return x;
}
static NS long rs_call(void* fn, void* a1, void* a2) {
  static uint64_t ctr;
  uint64_t vals[6];
  volatile uint64_t canary[8];
  uint64_t base = rs_mix(++ctr * 0x9e3779b97f4a7c15ull);
  for (int i = 0; i < 6; i++) vals[i] = rs_mix(base + i);
  for (int i = 0; i < 8; i++) canary[i] = rs_mix(base + 100 + i);
  long res = 0;
  long mask = regshim_call2(fn, a1, a2, vals, &res);
  if (mask) sim_violation("C19-register-clobbered", "callee-saved register mask 0x%lx changed across a suspending call", mask);
  for (int i = 0; i < 8; i++)
    if (canary[i] != rs_mix(base + 100 + i)) sim_violation("C19-stack-clobbered", "stack canary word %d changed across a suspending call", i);
  sim_probe("c19_shim_calls", 1);
  return res;
}
#define RS0(fn) rs_call((void*)(fn), 0, 0)
#define RS1(fn, a) rs_call((void*)(fn), (void*)(a), 0)
#define RS2(fn, a, b) rs_call((void*)(fn), (void*)(a), (void*)(b))

static NS void h_fiber_end(void) {
  sim_drain();
  sim_check_quiescent();
  sim_finish_ok();
}
/* ---- helpers for data-structure harnesses (plain threads under the baton) ---- */
#include <pthread.h>
static NS void h_lin_verdict(const char* oracle) {
  static char msg[3000];
  int r = hist_check(msg, sizeof msg);
  if (r == -1) sim_violation(oracle, "%s", msg);
  if (r == -2) sim_probe("lin_inconclusive", 1);
}

/* the object under test lives in heap memory that held something else before: an init function that leaves a
 * field untouched shows (the pattern is part of the program, so it shrinks and replays) */
static NS __attribute__((unused)) void* h_dirty_alloc(size_t n) {
  static const unsigned char pat[] = {0x00, 0xA5, 0xFF, 0x01, 0x7F};
  void* p = malloc(n);
  memset(p, pat[wl_pick(5)], n);
  return p;
}

#ifdef H_WITH_DEFERRED_UNLOCK
/* ---- deferred-unlock scenario (C03 hand-off, C10 polling loops) ----
 * fiber_cond_wait releases the caller's mutex only after the caller has been switched out: the next fiber on
 * that kernel thread - or the thread's maintenance fiber, if nothing else is runnable - performs the unlock.
 * A contender is made slow (directed stall) right after it has announced itself on the mutex and before it
 * has queued itself, so that the unlocking fiber has to wait for it, while other fibers only ever yield.
 * Everybody must still finish. */
#include "fiber.h"
#include "fiber_cond.h"
#include "fiber_manager.h"
#include "fiber_mutex.h"
static fiber_mutex_t* du_m;
static fiber_cond_t* du_cv;
static volatile int du_flag, du_w_waiting, du_done_w, du_done_c;
static long du_counter;
static int du_k, du_nth, du_steps, du_sig_yields;
static NS void du_progress(void) { sim_progress(); }
static int du_maint_spun;
static NS void du_on_spin(void) { /* reach probe: the unlocker that has to wait for the contender is a thread's maintenance fiber */
  fiber_manager_t* m = fiber_manager_get();
  if (m && m->current_fiber == m->maintenance_fiber && m->wake_mpsc_spin_count > 0 && !du_maint_spun) {
    du_maint_spun = 1;
    sim_probe("deferred_unlock_by_maintenance_fiber_waits", 1);
  }
}
static void* du_waiter(void* p) {
  (void)p;
  for (int k = 0; k < du_k; k++) fiber_yield();
  fiber_mutex_lock(du_m);
  du_w_waiting = 1;
  while (!du_flag) fiber_cond_wait(du_cv, du_m);
  du_counter++;
  fiber_mutex_unlock(du_m);
  du_done_w = 1;
  du_progress();
  return NULL;
}
static void* du_signaller(void* p);
static void* du_poller(void* p);
static int du_main_waits, du_npoll;
static fiber_t* du_spawned[8];
static volatile int du_nspawned;
static void* du_contender(void* p) {
  (void)p;
  if (du_main_waits) {
    /* the contender brings the other fibers along: they start on whichever kernel thread it runs on, which is
     * about to be descheduled with them in its run queue */
    int n = 0;
    du_spawned[n++] = fiber_create(STK, du_signaller, NULL);
    for (int i = 0; i < du_npoll; i++) du_spawned[n++] = fiber_create(STK, du_poller, (void*)(intptr_t)(i + du_sig_yields));
    du_nspawned = n;
  }
  while (!du_w_waiting) fiber_yield();
  sim_stall_after_rmw(du_nth, du_steps);
  fiber_mutex_lock(du_m);
  sim_stall_after_rmw(0, 0);
  du_counter++;
  fiber_mutex_unlock(du_m);
  du_done_c = 1;
  du_progress();
  return NULL;
}
static void* du_signaller(void* p) {
  (void)p;
  while (!du_w_waiting) fiber_yield();
  for (int k = 0; k < du_sig_yields; k++) fiber_yield();
  fiber_mutex_lock(du_m);
  du_flag = 1;
  fiber_cond_signal(du_cv);
  fiber_mutex_unlock(du_m);
  du_progress();
  return NULL;
}
static void* du_child(void* p) {
  fiber_yield();
  return p;
}
static void* du_poller(void* p) {
  /* odd pollers keep creating and joining a child instead of only yielding: the join hand-shake uses the
   * kernel thread's deferred-action slots, like the deferred unlock does */
  const int joins = (int)(intptr_t)p & 1;
  while (!(du_done_w && du_done_c)) {
    if (joins) {
      void* r = NULL;
      fiber_t* c = fiber_create(STK, du_child, (void*)0x77);
      fiber_join(c, &r);
      if (r != (void*)0x77) sim_violation("C04-wrong-result", "deferred-unlock scenario: join delivered %p", r);
    } else
      fiber_yield();
  }
  return NULL;
}
static void h_deferred_unlock_scenario(const char* prop_oracle) {
  sim_cfg_t c = sim_config(2, 4, 0, FBIT(F_STALL));
  du_k = wl_int(0, 3);
  du_nth = wl_int(1, 2);
  du_steps = wl_int(1, 8) * 7500; /* long enough for the waiting side to reach its periodic load balancing (every 1024 yields of a thread) */
  du_sig_yields = wl_int(0, 6);
  const int npoll = du_npoll = wl_int(1, 3);
  const int order = wl_pick(2);
  du_main_waits = wl_pct(50); /* the waiter is the main fiber: kernel thread 0, whose maintenance fiber is not its thread fiber */
  sim_scenario("deferred-unlock");
  sim_describe("deferred unlock: threads=%d waiter_pre_yields=%d contender stalls %d steps after its RMW #%d, signaller_yields=%d pollers=%d order=%d main_is_waiter=%d preempt=1/%d", c.threads, du_k, du_steps,
               du_nth, du_sig_yields, npoll, order, du_main_waits, c.preempt_inv);
  sim_nontrivial();
  sim_fiber_mode();
  sim_hook_spin = du_on_spin;
  fiber_manager_init(c.threads);
  du_m = h_dirty_alloc(sizeof *du_m);
  du_cv = h_dirty_alloc(sizeof *du_cv);
  fiber_mutex_init(du_m);
  fiber_cond_init(du_cv);
  fiber_t* f[8];
  int n = 0;
  if (du_main_waits) {
    /* the other kernel threads come up and look for work meanwhile; a kernel thread balances its load on every
     * 1024th yield, so bring thread 0 close to that point */
    const int warm = wl_int(900, 1020);
    for (int k = 0; k < warm; k++) fiber_yield();
    fiber_t* c_f = fiber_create(STK, du_contender, NULL);
    while (!du_nspawned) fiber_yield();
    du_waiter(NULL);
    fiber_join(c_f, NULL);
    for (int i = 0; i < du_nspawned; i++) fiber_join(du_spawned[i], NULL);
    if (du_counter != 2) sim_violation(prop_oracle, "deferred-unlock scenario: %ld of 2 critical sections ran", du_counter);
    if (du_m->counter != 1) sim_violation(prop_oracle, "deferred-unlock scenario: mutex counter %d at rest (1 = free)", (int)du_m->counter);
    h_fiber_end();
  }
  if (order) f[n++] = fiber_create(STK, du_contender, NULL);
  f[n++] = fiber_create(STK, du_waiter, NULL);
  if (!order) f[n++] = fiber_create(STK, du_contender, NULL);
  f[n++] = fiber_create(STK, du_signaller, NULL);
  for (int i = 0; i < npoll; i++) f[n++] = fiber_create(STK, du_poller, (void*)(intptr_t)(i + du_sig_yields));
  for (int i = 0; i < n; i++) fiber_join(f[i], NULL);
  if (du_counter != 2) sim_violation(prop_oracle, "deferred-unlock scenario: %ld of 2 critical sections ran", du_counter);
  if (du_m->counter != 1) sim_violation(prop_oracle, "deferred-unlock scenario: mutex counter %d at rest (1 = free)", (int)du_m->counter);
  h_fiber_end();
}
#endif
#endif
