/* C02 (a) - work-stealing deque in isolation: one owner (push/pop), 1-3 thieves (steal):
 * never drops an entry, never hands one entry to two takers, across growth and at length 0/1 */
#include "common.h"
#include "work_stealing_deque.h"

const char* const H_NAME = "c02_deque";
const char* const H_PROPERTY = "C02";

#define MAXTHIEF 3
#define MAXOPS 10
#define MAXV 1400
static wsd_work_stealing_deque_t* dq;
static int nthief, prefill, owner_n, owner_op[MAXOPS], thief_n[MAXTHIEF];
/* ghost */
static unsigned char present[MAXV], completed[MAXV];
static int next_v = 1, n_present_completed;
static unsigned long epoch;
static int inflight;
static int taken_total, pushed_total;
static int tso_mode; /* a push that has returned may still sit in the pusher's store buffer: no EMPTY oracle */

static NS int g_push_begin(void) {
  int v = next_v++;
  if (v >= MAXV) sim_violation("SIM-too-many-values", "%d", v);
  present[v] = 1;
  pushed_total++;
  epoch++;
  inflight++;
  return v;
}
static NS void g_push_end(int v) {
  if (present[v]) { /* not stolen before the push call even returned */
    completed[v] = 1;
    n_present_completed++;
  }
  epoch++;
  inflight--;
  sim_progress();
}
typedef struct {
  unsigned long epoch;
  int others_inflight, completed_present;
} snap_t;
static NS snap_t g_take_begin(void) {
  snap_t s = {0, inflight, n_present_completed};
  epoch++;
  inflight++;
  s.epoch = epoch;
  return s;
}
static NS void g_take_end(snap_t s, void* r, const char* how) {
  inflight--;
  if (r == WSD_ABORT) {
    sim_probe("abort", 1);
  } else if (r == WSD_EMPTY) {
    if (!tso_mode && s.completed_present > 0 && s.others_inflight == 0 && epoch == s.epoch)
      sim_violation("C02-empty-with-entries", "%s reported EMPTY although %d entries were queued and no other operation overlapped the call", how, s.completed_present);
  } else {
    long v = (long)r;
    if (v <= 0 || v >= MAXV || v >= next_v) sim_violation("C02-queue-invented", "%s returned %p which was never pushed", how, r);
    if (!present[v]) sim_violation("C02-entry-taken-twice", "%s returned entry %ld which had already been handed to another taker", how, v);
    present[v] = 0;
    if (completed[v]) n_present_completed--;
    taken_total++;
  }
  epoch++;
  sim_progress();
}
static void* owner(void* p) {
  (void)p;
  for (int i = 0; i < owner_n; i++) {
    if (owner_op[i] == 2) { /* 256 pushes in one go (no preemption inside: a thief that was preempted in the
                               middle of a steal stays there while the queue grows past it) */
      sim_preempt_off();
      for (int k = 0; k < 256; k++) {
        int v = g_push_begin();
        wsd_work_stealing_deque_push_bottom(dq, (void*)(long)v);
        g_push_end(v);
      }
      sim_preempt_on();
    } else if (owner_op[i]) {
      int v = g_push_begin();
      wsd_work_stealing_deque_push_bottom(dq, (void*)(long)v);
      g_push_end(v);
    } else {
      snap_t s = g_take_begin();
      void* r = wsd_work_stealing_deque_pop_bottom(dq);
      g_take_end(s, r, "pop_bottom");
    }
  }
  return NULL;
}
static void* thief(void* p) {
  const int t = (int)(intptr_t)p;
  for (int i = 0; i < thief_n[t]; i++) {
    snap_t s = g_take_begin();
    void* r = wsd_work_stealing_deque_steal(dq);
    g_take_end(s, r, "steal");
  }
  return NULL;
}
void h_run(void) {
  sim_cfg_t c = sim_config(1, 1, 0, FBIT(F_STALL));
  nthief = wl_int(1, MAXTHIEF);
  int big = wl_pct(30);
  prefill = big ? wl_int(250, 258) : wl_int(0, 3);
  owner_n = wl_int(1, MAXOPS);
  int pushes = 0;
  int bulks = 0;
  for (int i = 0; i < owner_n; i++) {
    owner_op[i] = wl_pct(big ? 70 : 50);
    if (big && bulks < 2 && wl_pct(30)) {
      owner_op[i] = 2;
      bulks++;
      pushes += 255;
    }
    pushes += owner_op[i] != 0;
  }
  int steals = 0;
  for (int t = 0; t < nthief; t++) {
    thief_n[t] = wl_int(1, 6);
    steals += thief_n[t];
  }
  sim_describe("prefill=%d owner_ops=%d (pushes %d, bulk pushes of 256: %d) thieves=%d steals=%d preempt=1/%d", prefill, owner_n, pushes, bulks, nthief, steals, c.preempt_inv);
  sim_nontrivial();
  int tso = wl_pct(40);
  tso_mode = tso;
  if (tso) { /* stores weaker than seq_cst (half of the time plain stores too) may linger in a store buffer (x86-TSO) */
    if (wl_pct(50)) sim_tso_enable_plain();
    else sim_tso_enable();
  }
  sim_probe("tso_runs", tso);
  dq = wsd_work_stealing_deque_create();
  /* the library starts every deque with 256 slots, which puts the growth path out of reach of short programs.
   * Half of the runs start from an array of 1..8 slots instead (same constructor the library uses), so that
   * a push grows the array while thieves are at work on it */
  const int small_log = wl_pct(50) ? wl_int(0, 3) : -1;
  if (small_log >= 0) {
    wsd_circular_array_destroy(dq->underlying_array);
    dq->underlying_array = wsd_circular_array_create((size_t)small_log);
    sim_probe("small_initial_array", 1);
  }
  sim_preempt_off();
  for (int i = 0; i < prefill; i++) {
    int v = g_push_begin();
    wsd_work_stealing_deque_push_bottom(dq, (void*)(long)v);
    g_push_end(v);
  }
  sim_preempt_on();
  pthread_t th[MAXTHIEF + 1];
  pthread_create(&th[0], NULL, owner, NULL);
  for (int t = 0; t < nthief; t++) pthread_create(&th[t + 1], NULL, thief, (void*)(intptr_t)t);
  for (int t = 0; t <= nthief; t++) pthread_join(th[t], NULL);
  /* final drain by the (now only) owner */
  sim_preempt_off();
  for (;;) {
    snap_t s = g_take_begin();
    void* r = wsd_work_stealing_deque_pop_bottom(dq);
    g_take_end(s, r, "pop_bottom (drain)");
    if (r == WSD_EMPTY) break;
  }
  sim_preempt_on();
  if (taken_total != pushed_total) {
    int lost = -1;
    for (int v = 1; v < next_v; v++)
      if (present[v]) lost = v;
    sim_violation("C02-entry-lost", "%d entries pushed, %d handed out after the final drain (e.g. entry %d was dropped)", pushed_total, taken_total, lost);
  }
  sim_probe("grown", small_log >= 0 ? dq->underlying_array->log_size > (size_t)small_log : dq->underlying_array->log_size > 8);
  wsd_work_stealing_deque_destroy(dq);
  sim_finish_ok();
}
