/* C14 - hazard pointers: nothing is reclaimed while protected; garbage stays bounded */
#include "common.h"
#include "hazard_pointer.h"

const char* const H_NAME = "c14_hazard";
const char* const H_PROPERTY = "C14";

#define MAXTH 4
#define MAXK 3
#define MAXOPS 10
#define NPOOL 120
#define NCELL 2
typedef struct hnode {
  hazard_node_t hz; /* must be first */
  long id;
} hnode_t;
enum { O_READ = 0, O_REPLACE, O_YIELD };
static int nth, K, ncell, late_mask, warm[4];
static struct {
  int n;
  struct {
    int kind, cell, slot, hold;
  } op[MAXOPS];
} prog[MAXTH];
static _Atomic(hnode_t*) cell[NCELL];
static _Atomic(hazard_pointer_thread_record_t*) hp_head;
static hazard_pointer_thread_record_t* rec[MAXTH + 1];
/* node pool with shuffled addresses */
static hnode_t* pool_lo;
static hnode_t* pool_hi;
static int n_lo; /* nodes [0,n_lo) live in the ordinary heap, [n_lo,NPOOL) more than 2 GiB above them */
static NS hnode_t* NODE(int i) { return i < n_lo ? &pool_lo[i] : &pool_hi[i - n_lo]; }
static int order[NPOOL], next_fresh;
static hnode_t* free_list[NPOOL];
static int nfree;
/* ghost */
enum { NS_FREE = 0, NS_LIVE, NS_RETIRED, NS_RECLAIMED };
static int nstate[NPOOL];
static unsigned gen[NPOOL];
static uint64_t retire_stamp[NPOOL];
static uint64_t clk;
static hnode_t* slot_ptr[MAXTH + 1][MAXK];     /* published (ghost set before the real store) */
static hnode_t* slot_prev[MAXTH + 1][MAXK];    /* value the real slot may still hold while it is being overwritten */
static uint64_t slot_valid[MAXTH + 1][MAXK];   /* stamp at which the protection was validated, 0 = not validated */
static int scanning[MAXTH + 1];
static unsigned char in_scan_set[MAXTH + 1][NPOOL], touched[MAXTH + 1][NPOOL];
static unsigned scan_gen[MAXTH + 1][NPOOL];
static int retired_total, reclaimed_total, protected_retire_seen;
static long next_id = 1;

static NS int idx_of(const void* p) {
  const hnode_t* n = p;
  if (n >= pool_lo && n < pool_lo + n_lo) return (int)(n - pool_lo);
  if (n >= pool_hi && n < pool_hi + (NPOOL - n_lo)) return n_lo + (int)(n - pool_hi);
  return -1;
}
static NS int rec_index(void* h) {
  for (int t = 0; t <= nth; t++)
    if (rec[t] == h) return t;
  return -1;
}
static NS void reclaim_cb(void* gc_data, hazard_node_t* hz) {
  (void)gc_data;
  sim_tso_sync(); /* this helper writes the node directly */
  int i = idx_of(hz);
  if (i < 0 || i >= NPOOL) sim_violation("C14-reclaim-unknown", "callback for %p which is not a pool node", (void*)hz);
  if (nstate[i] != NS_RETIRED) sim_violation("C14-reclaim-not-retired", "node %d handed to the reclamation callback in ghost state %d (3 = already reclaimed)", i, nstate[i]);
  for (int t = 0; t <= nth; t++)
    for (int s = 0; s < K; s++)
      if (slot_ptr[t][s] == NODE(i) && slot_valid[t][s] && slot_valid[t][s] < retire_stamp[i])
        sim_violation("C14-reclaimed-while-protected", "node %d reclaimed although record %d slot %d holds a hazard pointer to it that was validated (stamp %lu) before the retirement (stamp %lu)", i, t,
                      s, (unsigned long)slot_valid[t][s], (unsigned long)retire_stamp[i]);
  nstate[i] = NS_RECLAIMED;
  gen[i]++;
  sim_trace("reclaim node %d", i);
  memset(&NODE(i)->id, 0xFB, sizeof NODE(i)->id);
  free_list[nfree++] = NODE(i);
  reclaimed_total++;
}
static NS hnode_t* node_new(void) {
  hnode_t* n;
  sim_tso_sync();
  if (nfree && (next_fresh >= NPOOL || (clk & 1))) n = free_list[--nfree];
  else if (next_fresh < NPOOL) n = NODE(order[next_fresh++]);
  else if (nfree) n = free_list[--nfree];
  else return NULL;
  int i = idx_of(n);
  nstate[i] = NS_LIVE;
  n->hz.gc_data = NULL;
  n->hz.gc_function = reclaim_cb;
  n->hz.next = NULL;
  n->id = next_id++;
  return n;
}
static NS void g_publish_done(int t, int s) { slot_prev[t][s] = NULL; sim_trace("rec %d slot %d published node %d", t, s, idx_of(slot_ptr[t][s])); }
static NS void g_publish(int t, int s, hnode_t* p) {
  slot_prev[t][s] = slot_ptr[t][s];
  slot_ptr[t][s] = p;
  slot_valid[t][s] = 0;
  int i = idx_of(p);
  for (int r = 0; r <= nth; r++)
    if (scanning[r] && in_scan_set[r][i]) touched[r][i] = 1;
}
static NS unsigned g_validated(int t, int s) {
  slot_valid[t][s] = ++clk;
  return gen[idx_of(slot_ptr[t][s])];
}
static NS void g_use_check(int t, int s, long id_at_validation, long id_now, unsigned gen_at_validation) {
  int i = idx_of(slot_ptr[t][s]);
  if (gen[i] != gen_at_validation || nstate[i] == NS_RECLAIMED || nstate[i] == NS_FREE)
    sim_violation("C14-use-after-reclaim", "record %d still holds a validated hazard pointer to node %d, which was reclaimed meanwhile", t, i);
  if (id_now != id_at_validation) sim_violation("C14-use-after-reclaim", "record %d: protected node %d changed under the reader (%ld -> %ld)", t, i, id_at_validation, id_now);
}
static NS void g_release(int t, int s) {
  sim_tso_sync(); /* the operation is complete: the cleared slot is visible (the ghost has no "being cleared" state) */
  sim_trace("rec %d slot %d released node %d", t, s, idx_of(slot_ptr[t][s]));
  slot_ptr[t][s] = NULL;
  slot_valid[t][s] = 0;
  sim_progress();
}
static NS void g_retire(hnode_t* old) {
  int i = idx_of(old);
  nstate[i] = NS_RETIRED;
  retire_stamp[i] = ++clk;
  retired_total++;
  sim_trace("retire node %d", i);
  for (int t = 0; t <= nth; t++)
    for (int s = 0; s < K; s++)
      if (slot_ptr[t][s] == old && slot_valid[t][s]) {
        protected_retire_seen = 1;
        sim_nontrivial();
      }
}
static NS void g_after_free(int t) {
  sim_tso_sync();
  /* bounded garbage: a scan runs at the latest when the retired list reaches 2*N*K (N <= all records of this run) */
  size_t bound = 2u * (size_t)(nth + 1) * (size_t)K;
  if (rec[t]->retired_count >= bound)
    sim_violation("C14-garbage-unbounded", "record %d keeps %zu retired nodes, threshold 2*N*K = %zu was never acted upon", t, rec[t]->retired_count, bound);
  sim_progress();
}
static NS void scan_enter(void* h) {
  int t = rec_index(h);
  if (t < 0) return;
  sim_tso_sync(); /* the ghost walks the retired list directly */
  scanning[t] = 1;
  sim_trace("scan enter rec %d (retired_count %zu, threshold %zu)", t, rec[t]->retired_count, (size_t)rec[t]->retire_threshold);
  memset(in_scan_set[t], 0, NPOOL);
  memset(touched[t], 0, NPOOL);
  for (hazard_node_t* n = rec[t]->retired_list; n; n = n->next) {
    int i = idx_of(n);
    if (i < 0 || i >= NPOOL) sim_violation("C14-retired-list-corrupt", "record %d: retired list contains %p", t, (void*)n);
    in_scan_set[t][i] = 1;
    scan_gen[t][i] = gen[i];
  }
  /* anything published right now counts as protected during the scan */
  for (int r = 0; r <= nth; r++)
    for (int s = 0; s < K; s++)
    {
      if (slot_ptr[r][s]) touched[t][idx_of(slot_ptr[r][s])] = 1;
      if (slot_prev[r][s]) touched[t][idx_of(slot_prev[r][s])] = 1;
    }
  sim_probe("scans", 1);
}
static NS void scan_exit(void* h) {
  int t = rec_index(h);
  if (t < 0) return;
  scanning[t] = 0;
  sim_trace("scan exit rec %d", t);
  for (int i = 0; i < NPOOL; i++)
    if (in_scan_set[t][i] && !touched[t][i] && gen[i] == scan_gen[t][i]) /* same life of the node: it was not reclaimed by this scan */
      sim_violation("C14-unprotected-not-reclaimed", "record %d scanned while node %d was on its retired list and unprotected for the whole scan, yet the node was kept", t, i);
}
static void* thr(void* p) {
  const int t = (int)(intptr_t)p;
  if (late_mask >> t & 1)
    for (int k = 0; k < 3; k++) sim_yield_point(); /* register while others already scan */
  hazard_pointer_thread_record_t* h = hazard_pointer_thread_record_create_and_push(&hp_head, K);
  rec[t] = h;
  /* warm-up (no preemption): retire nodes nobody ever saw, up to just below the scan threshold, so that the
   * retirements of the recorded operations trigger scans while other records hold protections */
  sim_preempt_off();
  for (int k = 0; k < warm[t]; k++) {
    hnode_t* n = node_new();
    if (!n) break;
    g_retire(n);
    hazard_pointer_free(h, &n->hz);
  }
  sim_preempt_on();
  for (int i = 0; i < prog[t].n; i++) {
    const int c = prog[t].op[i].cell, s = prog[t].op[i].slot;
    if (prog[t].op[i].kind == O_READ) {
      hnode_t* pn;
      for (int tries = 0;; tries++) {
        pn = atomic_load(&cell[c]);
        g_publish(t, s, pn);
        hazard_pointer_using(h, &pn->hz, s);
        g_publish_done(t, s);
        if (atomic_load(&cell[c]) == pn) break; /* validated */
      }
      unsigned g0 = g_validated(t, s);
      long id0 = pn->id; /* use */
      for (int k = 0; k < prog[t].op[i].hold; k++) sim_yield_point();
      long id1 = pn->id; /* use again */
      g_use_check(t, s, id0, id1, g0);
      hazard_pointer_done_using(h, s);
      g_release(t, s);
    } else if (prog[t].op[i].kind == O_REPLACE) {
      hnode_t* n = node_new();
      if (!n) continue;
      hnode_t* old = atomic_exchange(&cell[c], n);
      g_retire(old);
      hazard_pointer_free(h, &old->hz);
      g_after_free(t);
    } else
      sim_yield_point();
  }
  return NULL;
}
void h_run(void) {
  sim_cfg_t c = sim_config(1, 1, 0, FBIT(F_STALL));
  nth = wl_int(1, MAXTH);
  K = wl_int(1, MAXK);
  ncell = wl_int(1, NCELL);
  late_mask = wl_int(0, 15);
  int total = 0;
  const int maxops = sim_tier_thorough() ? MAXOPS : 8;
  for (int t = 0; t < nth; t++) {
    prog[t].n = wl_int(2, maxops);
    for (int i = 0; i < prog[t].n; i++) {
      int r = wl_pick(10);
      prog[t].op[i].kind = r < 4 ? O_READ : r < 9 ? O_REPLACE : O_YIELD;
      prog[t].op[i].cell = wl_pick(ncell);
      prog[t].op[i].slot = wl_pick(K);
      prog[t].op[i].hold = wl_int(0, 4);
    }
    total += prog[t].n;
    warm[t] = wl_pct(60) ? 2 * nth * K - wl_int(1, 3) : 0;
    if (warm[t] < 0) warm[t] = 0;
  }
  n_lo = wl_pct(50) ? NPOOL : wl_int(1, NPOOL - 1);
  const int tso = wl_pct(40);
  if (tso) sim_tso_enable_plain(); /* the publication of a hazard pointer is a plain store followed by a store->load fence */
  sim_describe("records=%d(+1) slots=%d cells=%d ops=%d late_mask=%x nodes_far_apart=%d tso=%d preempt=1/%d", nth, K, ncell, total, late_mask, NPOOL - n_lo, tso, c.preempt_inv);
  pool_lo = calloc(NPOOL, sizeof(hnode_t));
  pool_hi = sim_alloc_high(NPOOL * sizeof(hnode_t));
  for (int i = 0; i < NPOOL; i++) order[i] = i;
  for (int i = NPOOL - 1; i > 0; i--) { /* shuffled addresses: sorted-pointer order differs from retire order */
    int j = wl_int(0, i);
    int x = order[i];
    order[i] = order[j];
    order[j] = x;
  }
  sim_hook_hp_scan_enter = scan_enter;
  sim_hook_hp_scan_exit = scan_exit;
  for (int k = 0; k < ncell; k++) atomic_store(&cell[k], node_new());
  pthread_t th[MAXTH];
  for (int t = 0; t < nth; t++) pthread_create(&th[t], NULL, thr, (void*)(intptr_t)t);
  for (int t = 0; t < nth; t++) pthread_join(th[t], NULL);
  /* nothing is protected any more: one scan per record reclaims everything that was retired */
  for (int t = 0; t < nth; t++) hazard_pointer_scan(rec[t]);
  if (reclaimed_total != retired_total)
    sim_violation("C14-not-reclaimed-at-rest", "%d nodes retired, %d reclaimed after a final scan of every record with no hazard pointer set", retired_total, reclaimed_total);
  hazard_pointer_thread_record_destroy_all(atomic_load(&hp_head)); /* teardown: every record and its scratch list freed once */
  sim_probe("retired", retired_total);
  sim_probe("protected_retires", protected_retire_seen);
  sim_finish_ok();
}
