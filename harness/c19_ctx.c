/* C19 (b) - bare fiber_context_*: any sequence of switches among contexts preserves callee-saved
 * registers, stack pointer and stack contents; a new context starts with its argument on an aligned
 * private stack; every stack is released exactly once; allocation failure is handled. */
#include "common.h"
#include "fiber.h"
#include "fiber_context.h"

/* built three times: assembly switch + malloc stacks (the configuration of every other harness),
 * assembly switch + mmap stacks (C19_VARIANT 1), ucontext back-end + malloc stacks (C19_VARIANT 2),
 * assembly switch + gcc split stacks (C19_VARIANT 3, this file and fiber_context.c compiled with -fsplit-stack) */
#ifndef C19_VARIANT
#define C19_VARIANT 0
#endif
#if C19_VARIANT == 1
const char* const H_NAME = "c19_ctx_mmap";
#define BLOCKS_PER_CTX 0 /* stacks are mappings, not heap blocks */
#elif C19_VARIANT == 2
const char* const H_NAME = "c19_ctx_uctx";
#define BLOCKS_PER_CTX 2 /* ucontext_t + stack */
#elif C19_VARIANT == 3
const char* const H_NAME = "c19_ctx_split";
#define BLOCKS_PER_CTX 0 /* split stacks: segments are mappings made by libgcc */
#else
const char* const H_NAME = "c19_ctx";
#define BLOCKS_PER_CTX 1
#endif
const char* const H_PROPERTY = "C19";

#if C19_VARIANT == 1 || C19_VARIANT == 3
/* ledger of stack mappings: every mapping made while contexts are created must be unmapped exactly once
 * (mmap variant: the library's own mmap/munmap calls; split variant: libgcc maps its stack segments with
 * syscall(SYS_mmap) and releases them with syscall(SYS_munmap)) */
#include <sys/mman.h>
#include <sys/syscall.h>
#define MAXMAP 64
static struct {
  char* p;
  size_t n;
  int live;
} maps[MAXMAP];
static int nmaps, map_tracking, maps_at_init;
#if C19_VARIANT == 3
#define NSS NS __attribute__((no_split_stack)) /* called by libgcc while it switches segments */
#else
#define NSS NS
#endif
static NSS void note_map(void* p, size_t n) {
  if (map_tracking && p != MAP_FAILED && nmaps < MAXMAP) {
    maps[nmaps].p = p;
    maps[nmaps].n = n;
    maps[nmaps].live = 1;
    nmaps++;
  }
}
static NSS void note_unmap(void* p_, size_t n) {
  char* p = p_;
  for (int i = 0; i < nmaps; i++)
    if (p < maps[i].p + maps[i].n && maps[i].p < p + n) {
      if (!maps[i].live) sim_violation("C19-stack-released-twice", "stack mapping %p unmapped twice", (void*)maps[i].p);
      if (C19_VARIANT == 1 && (maps[i].p != p || maps[i].n != n))
        sim_violation("C19-stack-partial-release", "stack mapping %p of %zu bytes unmapped as %p with length %zu", (void*)maps[i].p, maps[i].n, p_, n);
      maps[i].live = 0;
    }
}
#if C19_VARIANT == 1
void* __real_mmap(void*, size_t, int, int, int, off_t);
int __real_munmap(void*, size_t);
NS void* __wrap_mmap(void* a, size_t n, int pr, int fl, int fd, off_t off) {
  void* p = __real_mmap(a, n, pr, fl, fd, off);
  note_map(p, n);
  return p;
}
NS int __wrap_munmap(void* p, size_t n) {
  note_unmap(p, n);
  return __real_munmap(p, n);
}
#else
long __real_syscall(long, long, long, long, long, long, long);
NSS long __wrap_syscall(long nr, long a, long b, long c, long d, long e, long f) {
  if (nr == SYS_munmap) note_unmap((void*)a, (size_t)b);
  long r = __real_syscall(nr, a, b, c, d, e, f);
  if (nr == SYS_mmap) note_map((void*)r, (size_t)b);
  return r;
}
#endif
static NS int live_maps(void) {
  int c = 0;
  for (int i = 0; i < nmaps; i++) c += maps[i].live;
  return c;
}
static NS int stack_live(void* st_) {
  char* st = st_;
  for (int i = 0; i < nmaps; i++)
    if (st >= maps[i].p && st < maps[i].p + maps[i].n) return maps[i].live;
  return 0;
}
#define STACK_LIVE(st) stack_live(st)
#define STACK_GONE(st) (!stack_live(st))
#else
#define STACK_LIVE(st) sim_mem_is_live(st)
#define STACK_GONE(st) sim_mem_is_freed(st)
#endif

#define MAXC 6
#define MAXSTEPS 40
extern void* ctx_entry_tramp(void*);
extern uint64_t ctx_entry_rsp, ctx_entry_arg;
void* ctx_body(void* arg);

static fiber_context_t ctx[MAXC];
static fiber_context_t thr_ctx[2]; /* contexts of the driving threads */
static int nctx, nsteps, script[MAXSTEPS], phase_end[3];
static size_t stack_size[MAXC];
static int started[MAXC];
static int g_step;
static int cur_thread; /* which driving thread owns the walk right now */
static int switches_done;

static NS void check_entry(int me_) {
  if (ctx_entry_arg != (uint64_t)(0xA000 + me_))
    sim_violation("C19-wrong-argument", "context %d started with argument %#lx instead of %#lx", me_, (unsigned long)ctx_entry_arg, (unsigned long)(0xA000 + me_));
  if ((ctx_entry_rsp + 8) % 16 != 0)
    sim_violation("C19-stack-misaligned", "context %d entered its function with rsp %#lx: (rsp+8) is not 16-byte aligned", me_, (unsigned long)ctx_entry_rsp);
  char* lo = (char*)ctx[me_].ctx_stack;
  if ((char*)ctx_entry_rsp < lo || (char*)ctx_entry_rsp >= lo + ctx[me_].ctx_stack_size)
    sim_violation("C19-stack-not-private", "context %d runs with rsp %#lx outside its own stack [%p,+%zu)", me_, (unsigned long)ctx_entry_rsp, (void*)lo, ctx[me_].ctx_stack_size);
  started[me_] = 1;
}
static NS int next_target(int me_) {
  /* returns the context to switch to, -1 = the driving thread's own context */
  for (;;) {
    int s = g_step++;
    for (int ph = 0; ph < 3; ph++)
      if (s == phase_end[ph]) return -1; /* hand control back to the thread that drives this phase */
    if (s >= nsteps) return -1;
    if (script[s] != me_) return script[s];
  }
}
static NS void g_switched(void) {
  switches_done++;
  sim_progress();
}
#if C19_VARIANT == 3
/* split stacks: the switch happens some frames down, each frame about 6 KB (libgcc makes first segments of about 48 KB),
 * so that contexts are saved and resumed while they run in a segment added after their creation, and the
 * frames (and the segments libgcc gave back or kept meanwhile) are walked back up after the resume */
static int dive_depth[MAXSTEPS];
static int max_depth_reached;
static __attribute__((noinline)) int after_resume(int me_, int n) {
  volatile unsigned char pad[1100];
  for (unsigned i = 0; i < sizeof pad; i += 32) pad[i] = (unsigned char)(me_ + n + i);
  int r = n > 0 ? after_resume(me_, n - 1) : 0;
  for (unsigned i = 0; i < sizeof pad; i += 32) r += pad[i] != (unsigned char)(me_ + n + i);
  if (r) sim_violation("C19-stack-contents", "context %d: a frame of a call made after the resume was overwritten", me_);
  return r;
}
static __attribute__((noinline)) void dive(int me_, fiber_context_t* self, fiber_context_t* to, int depth) {
  volatile unsigned char pad[6000];
  const unsigned char pat = (unsigned char)(0x31 * (me_ + 1) + 7 * depth);
  for (unsigned i = 0; i < sizeof pad; i += 64) pad[i] = pat;
  pad[sizeof pad - 1] = pat;
  if (depth > max_depth_reached) max_depth_reached = depth;
  if (depth > 0) dive(me_, self, to, depth - 1);
  else {
    RS2(fiber_context_swap, self, to);
    after_resume(me_, 2); /* calls made right after the resume: the prologues consult the restored stack limit */
  }
  for (unsigned i = 0; i < sizeof pad; i += 64)
    if (pad[i] != pat) sim_violation("C19-stack-contents", "context %d resumed with a corrupted frame %d levels above the switch (byte %u is %#x, expected %#x)", me_, depth, i, pad[i], pat);
  if (pad[sizeof pad - 1] != pat) sim_violation("C19-stack-contents", "context %d resumed with a corrupted frame %d levels above the switch", me_, depth);
}
#endif
static void walk(int me_, fiber_context_t* self) {
  /* locals live on this context's stack and must survive every switch */
  volatile uint64_t tag = 0xC0DE0000u + (unsigned)me_;
  volatile uint64_t visits = 0;
  for (;;) {
    int t = next_target(me_);
    fiber_context_t* to = t < 0 ? &thr_ctx[cur_thread] : &ctx[t];
    if (to == self) return; /* a driving thread got control back */
    visits++;
    uint64_t v0 = visits;
#if C19_VARIANT == 3
    if (me_ >= 0) dive(me_, self, to, dive_depth[(g_step + me_) % MAXSTEPS]);
    else
#endif
    RS2(fiber_context_swap, self, to);
    g_switched();
    if (tag != 0xC0DE0000u + (unsigned)me_ || visits != v0)
      sim_violation("C19-stack-contents", "context %d resumed with corrupted locals (tag %#lx visits %lu/%lu)", me_, (unsigned long)tag, (unsigned long)visits, (unsigned long)v0);
    if (me_ < 0) return; /* driving threads leave the walk when they get control back */
  }
}
void* ctx_body(void* arg) {
  const int me_ = (int)((uintptr_t)arg - 0xA000);
  check_entry(me_);
  walk(me_, &ctx[me_]);
  sim_violation("C19-context-returned", "context %d: walk returned", me_);
  return NULL;
}
static void* second_driver(void* p) {
  (void)p;
  fiber_context_init_from_thread(&thr_ctx[1]);
  cur_thread = 1;
  walk(-2, &thr_ctx[1]); /* resumes contexts that were saved by the first thread */
  cur_thread = 0;
  return NULL;
}
void h_run(void) {
  sim_cfg_t c = sim_config(1, 1, 0, 0);
  nctx = wl_int(2, MAXC);
  nsteps = wl_int(2, sim_tier_thorough() ? MAXSTEPS : 24);
  static const size_t sizes[] = {8192, 8200, 12345, 16384, 65536, 102400, 1 << 20, 8192 + 8};
  for (int i = 0; i < nctx; i++) stack_size[i] = sizes[wl_pick(8)];
#if C19_VARIANT == 3
  {
    static const size_t small[] = {4096, 5000, 8192, 8200, 12345, 16384};
    for (int i = 0; i < nctx; i++)
      if (wl_pct(75)) stack_size[i] = small[wl_pick(6)];
  }
#endif
  for (int s = 0; s < nsteps; s++) script[s] = wl_pick(nctx);
  int cross = wl_pct(50);
  phase_end[0] = cross ? wl_int(1, nsteps) : nsteps;
  phase_end[1] = cross ? wl_int(phase_end[0], nsteps) : nsteps;
  phase_end[2] = nsteps;
#if C19_VARIANT == 3
  {
    const int deep = wl_int(0, 24);
    for (int s = 0; s < MAXSTEPS; s++) dive_depth[s] = wl_pct(60) ? wl_int(0, deep) : 0;
  }
#endif
  int fault_mode = wl_pick(4); /* 0 none, 1 fail a context stack, 2 fail inside fiber_create_no_sched, 3 both */
  sim_describe("contexts=%d steps=%d cross_thread=%d (phases end at %d,%d) alloc_faults=%d preempt=1/%d", nctx, nsteps, cross, phase_end[0], phase_end[1], fault_mode, c.preempt_inv);
  if (nctx >= 3 || cross) sim_nontrivial();
  const size_t live0 = sim_live_blocks();
  /* allocation failure while creating: must report an error, leave nothing half-made, free nothing twice */
  if (fault_mode & 1) {
    fiber_context_t tmp;
    memset(&tmp, 0, sizeof tmp);
    sim_alloc_fail_at(1 + (C19_VARIANT == 2 ? wl_pick(2) : 0)); /* ucontext back-end: fail the ucontext_t or the stack */
    int r = (C19_VARIANT == 1 || C19_VARIANT == 3) ? FIBER_ERROR : fiber_context_init(&tmp, 16384, ctx_entry_tramp, NULL);
    sim_alloc_fail_at(0);
    if (r != FIBER_ERROR) sim_violation("C19-alloc-failure-ignored", "fiber_context_init succeeded although its stack allocation failed");
    if (sim_live_blocks() != live0) sim_violation("C19-alloc-failure-leak", "a failed fiber_context_init left %ld blocks allocated", (long)(sim_live_blocks() - live0));
  }
  if ((fault_mode & 2) && C19_VARIANT != 3) { /* (the split variant links fiber.o built for another context layout) */
    for (int k = 1; k <= 2 + BLOCKS_PER_CTX; k++) { /* fiber, list node, then what the context itself allocates on the heap */
      sim_alloc_fail_at(k);
      fiber_t* f = fiber_create_no_sched(16384, ctx_entry_tramp, NULL);
      sim_alloc_fail_at(0);
      if (f) sim_violation("C19-alloc-failure-ignored", "fiber_create_no_sched returned a fiber although allocation %d failed", k);
      sim_probe("alloc_fault_create", 1);
    }
  }
  const size_t live1 = sim_live_blocks();
#if C19_VARIANT == 1 || C19_VARIANT == 3
  map_tracking = 1;
#endif
  /* the caller's storage holds arbitrary bytes before fiber_context_init (the API does not ask for zeroed memory) */
  static const unsigned char junk[] = {0x00, 0xA5, 0xFF, 0x01, 0x7F};
  const unsigned char jb = junk[wl_pick(5)];
  memset(&thr_ctx[0], jb, sizeof thr_ctx[0]);
  memset(&thr_ctx[1], jb, sizeof thr_ctx[1]);
  for (int i = 0; i < nctx; i++) {
    memset(&ctx[i], jb, sizeof ctx[i]);
    if (fiber_context_init(&ctx[i], stack_size[i], ctx_entry_tramp, (void*)(uintptr_t)(0xA000 + i)) != FIBER_SUCCESS)
      sim_violation("C19-init-failed", "fiber_context_init(%zu) failed", stack_size[i]);
    if (ctx[i].ctx_stack_size < stack_size[i]) sim_violation("C19-stack-too-small", "asked %zu got %zu", stack_size[i], ctx[i].ctx_stack_size);
    for (int j = 0; j < i; j++) {
      char *a = ctx[i].ctx_stack, *b = ctx[j].ctx_stack;
      if (a < b + ctx[j].ctx_stack_size && b < a + ctx[i].ctx_stack_size) sim_violation("C19-stack-not-private", "contexts %d and %d share stack memory", i, j);
    }
  }
  if (sim_live_blocks() != live1 + (size_t)nctx * BLOCKS_PER_CTX) sim_violation("C19-stack-ledger", "%d contexts created but %ld blocks allocated", nctx, (long)(sim_live_blocks() - live1));
#if C19_VARIANT == 1 || C19_VARIANT == 3
  map_tracking = C19_VARIANT == 3; /* split stacks: segments added while the contexts run are stack mappings too */
  maps_at_init = nmaps;
  if (live_maps() != nctx) sim_violation("C19-stack-ledger", "%d contexts created but %d stack mappings exist", nctx, live_maps());
#endif
  fiber_context_init_from_thread(&thr_ctx[0]);
  cur_thread = 0;
  walk(-1, &thr_ctx[0]); /* phase 1 */
  if (cross) {
    pthread_t th;
    pthread_create(&th, NULL, second_driver, NULL);
    pthread_join(th, NULL);
    walk(-1, &thr_ctx[0]); /* phase 3, back on the first thread */
  }
  for (int i = 0; i < nctx; i++)
    if (!STACK_LIVE(ctx[i].ctx_stack)) sim_violation("C19-stack-released-early", "stack of context %d is gone before fiber_context_destroy", i);
  const size_t live2 = sim_live_blocks(); /* (thread creation allocates too, so compare around the destroy calls) */
  for (int i = 0; i < nctx; i++) fiber_context_destroy(&ctx[i]);
  if (live2 - sim_live_blocks() != (size_t)nctx * BLOCKS_PER_CTX)
    sim_violation("C19-stack-ledger", "destroying %d contexts released %ld blocks", nctx, (long)(live2 - sim_live_blocks()));
  for (int i = 0; i < nctx; i++)
    if (!STACK_GONE(ctx[i].ctx_stack)) sim_violation("C19-stack-not-released", "stack of context %d still allocated after fiber_context_destroy", i);
#if C19_VARIANT == 3
  map_tracking = 0;
  if (live_maps()) sim_violation("C19-stack-not-released", "%d of the %d stack segments mapped for the contexts are still mapped after every context was destroyed", live_maps(), nmaps);
  sim_probe("dive_depth_max", max_depth_reached);
  sim_probe("stack_segments_added", nmaps - maps_at_init);
#endif
  sim_probe("switches", switches_done);
  sim_finish_ok();
}
