/* C16 - lock-free ring buffer: bounded, exactly-once, FIFO, never overwrites an unread slot;
 * try operations fail only when full/empty or overlapped by another operation */
#include "common.h"
#include "lockfree_ring_buffer.h"

const char* const H_NAME = "c16_ring";
const char* const H_PROPERTY = "C16";

#define MAXTH 4
#define MAXOPS 8
static lockfree_ring_buffer_t* rb;
static int nth, cap;
static struct {
  int n, op[MAXOPS];
} prog[MAXTH];
static long pushed_vals[64], popped_vals[64];
static int npushed, npopped;

static NS int g_inv(int t, int op, long arg) { return hist_invoke(t, op, arg); }
static NS void g_ret(int idx, long res) {
  hist_return(idx, res);
  sim_progress();
}
static NS void g_pushed(long v) { pushed_vals[npushed++] = v; }
static NS void g_popped(long v) {
  for (int i = 0; i < npopped; i++)
    if (popped_vals[i] == v) sim_violation("C16-popped-twice", "value %#lx returned by two pops", v);
  int ok = 0;
  for (int i = 0; i < npushed; i++) ok |= pushed_vals[i] == v;
  if (!ok) sim_violation("C16-invented-value", "pop returned %#lx which was never pushed successfully", v);
  popped_vals[npopped++] = v;
}
static void do_push(int t, long v) {
  int h = g_inv(t, OP_TRYPUSH, v);
  int ok = lockfree_ring_buffer_trypush(rb, (void*)v);
  if (ok) g_pushed(v);
  g_ret(h, ok ? RES_OK : RES_FAIL);
}
static long do_pop(int t) {
  int h = g_inv(t, OP_POP, 0);
  void* r = lockfree_ring_buffer_trypop(rb);
  if (r) g_popped((long)r);
  g_ret(h, r ? (long)r : RES_EMPTY);
  return r ? (long)r : RES_EMPTY;
}
/* blocking variants: producers only push, consumers only pop, as many pops as pushes in total, so every call
 * returns as long as the ring delivers what it accepted */
static int blocking, bcount[MAXTH];
static void do_push_blocking(int t, long v) {
  int h = g_inv(t, OP_TRYPUSH, v);
  g_pushed(v); /* a blocking push cannot fail: the value counts as accepted from the start */
  lockfree_ring_buffer_push(rb, (void*)v);
  g_ret(h, RES_OK);
}
static void do_pop_blocking(int t) {
  int h = g_inv(t, OP_POP, 0);
  void* r = lockfree_ring_buffer_pop(rb);
  g_popped((long)r);
  g_ret(h, (long)r);
}
static NS void g_size(size_t sz, int at_rest) {
  if (sz > (size_t)cap) sim_violation("C16-over-capacity", "lockfree_ring_buffer_size reports %zu items in a buffer of capacity %d", sz, cap);
  if (at_rest && sz != 0) sim_violation("C16-size-at-rest", "lockfree_ring_buffer_size reports %zu after the final drain", sz);
}
static void* thr(void* p) {
  const int t = (int)(intptr_t)p;
  int seq = 0;
  g_size(lockfree_ring_buffer_size(rb), 0);
  if (blocking) {
    for (int i = 0; i < bcount[t]; i++) {
      if (t & 1) do_pop_blocking(t);
      else do_push_blocking(t, ((long)(t + 1) << 8) | (++seq));
    }
    return NULL;
  }
  for (int i = 0; i < prog[t].n; i++) {
    if (prog[t].op[i]) do_push(t, ((long)(t + 1) << 8) | (++seq));
    else do_pop(t);
    g_size(lockfree_ring_buffer_size(rb), 0);
  }
  return NULL;
}
void h_run(void) {
  sim_cfg_t c = sim_config(1, 1, 0, FBIT(F_STALL));
  nth = wl_int(2, MAXTH);
  int p2 = wl_int(1, 3);
  cap = 1 << p2;
  int adv = wl_pick(4); /* where the indices start: 0, just below 2^32, just below 2^64, random */
  int total = 0;
  const int maxops = sim_tier_thorough() ? MAXOPS : 6;
  for (int t = 0; t < nth; t++) {
    prog[t].n = wl_int(1, maxops);
    for (int i = 0; i < prog[t].n; i++) prog[t].op[i] = wl_pct(55);
    total += prog[t].n;
  }
  blocking = wl_pct(25);
  if (blocking) {
    /* even threads produce, odd threads consume; the pops add up to the pushes */
    int pushes = 0, pops = 0, ncons = nth / 2;
    for (int t = 0; t < nth; t += 2) pushes += bcount[t] = wl_int(1, maxops);
    for (int t = 1; t < nth; t += 2) bcount[t] = 0;
    for (int k = 0; k < pushes; k++) bcount[1 + 2 * (ncons > 1 ? wl_pick(ncons) : 0)]++, pops++;
    total = pushes + pops;
  }
  int back = wl_int(0, 6);
  uint64_t start = adv == 0 ? 0 : adv == 1 ? 0xFFFFFFFFull - back : adv == 2 ? UINT64_MAX - back : ((uint64_t)wl_int(1, 1 << 30) << 20);
  sim_describe("threads=%d capacity=%d ops=%d blocking_calls=%d index_start=%#lx preempt=1/%d", nth, cap, total, blocking, (unsigned long)start, c.preempt_inv);
  if (adv == 2) sim_scenario("indices-wrap-2^64");
  if (nth >= 2 && total >= 3) sim_nontrivial();
  hist_reset(M_BFIFO, cap);
  if (wl_pct(40)) sim_tso_enable_plain();
  rb = lockfree_ring_buffer_create(p2);
  rb->high = start;
  rb->low = start;
  pthread_t th[MAXTH];
  for (int t = 0; t < nth; t++) pthread_create(&th[t], NULL, thr, (void*)(intptr_t)t);
  for (int t = 0; t < nth; t++) pthread_join(th[t], NULL);
  while (do_pop(nth) != RES_EMPTY) {
  }
  g_size(lockfree_ring_buffer_size(rb), 1);
  if (npopped != npushed) sim_violation("C16-lost-value", "%d values pushed successfully, %d popped after the final drain", npushed, npopped);
  h_lin_verdict("C16-not-linearizable");
  lockfree_ring_buffer_destroy(rb);
  sim_finish_ok();
}
