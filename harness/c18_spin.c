/* C18 - spinlock: mutual exclusion, FIFO ticket order, trylock never waits and never steals */
#include "common.h"
#include "fiber_context.h"
#include "fiber_spinlock.h"

const char* const H_NAME = "c18_spin";
const char* const H_PROPERTY = "C18";

#define MAXTH 4
#define MAXOPS 6
static fiber_spinlock_t* lk_p; /* heap memory with arbitrary previous contents */
#define lk (*lk_p)
static int nth;
static struct {
  int n;
  struct {
    int try_, cs;
  } op[MAXOPS];
} prog[MAXTH];
/* ghost */
static uint64_t clk;
static int occ, owner;
static int in_lock[MAXTH], in_try[MAXTH];
static uint64_t inv_stamp[MAXTH], wait_stamp[MAXTH]; /* wait_stamp: first spin hint inside the current lock call */
static int spun_in_try;

static NS void on_spin(void) {
  int t = sim_thread_id() - 1;
  if (t < 0 || t >= nth) return;
  if (in_try[t]) spun_in_try = 1;
  if (in_lock[t] && !wait_stamp[t]) {
    wait_stamp[t] = ++clk;
    sim_nontrivial();
  }
}
static NS void g_lock_invoke(int t) {
  in_lock[t] = 1;
  inv_stamp[t] = ++clk;
  wait_stamp[t] = 0;
}
static NS void g_acquired(int t, int by_try) {
  if (occ) sim_violation("C18-two-owners", "thread %d acquired the spinlock by %s while thread %d holds it", t, by_try ? "trylock" : "lock", owner);
  for (int a = 0; a < nth; a++)
    if (a != t && in_lock[a] && wait_stamp[a] && wait_stamp[a] < inv_stamp[t]) {
      if (by_try)
        sim_violation("C18-trylock-stole", "trylock of thread %d succeeded while thread %d was already waiting with a ticket", t, a);
      else
        sim_violation("C18-not-fifo", "thread %d called lock after thread %d was already spinning with its ticket, but acquired first", t, a);
    }
  occ = 1;
  owner = t;
  in_lock[t] = 0;
  wait_stamp[t] = 0;
  sim_progress();
}
static NS void g_try_invoke(int t) {
  in_try[t] = 1;
  inv_stamp[t] = ++clk;
  spun_in_try = 0;
}
static NS void g_try_done(int t, int ok) {
  in_try[t] = 0;
  if (spun_in_try) sim_violation("C18-trylock-waited", "thread %d spun inside fiber_spinlock_trylock", t);
  if (ok) g_acquired(t, 1);
  sim_progress();
}
static long* shared;
static long acquisitions;
static NS void g_acquisitions(void) { acquisitions++; }
static NS void g_release(int t) {
  if (!occ || owner != t) sim_violation("C18-owner-mismatch", "thread %d releases a lock held by %d", t, owner);
  occ = 0;
}
static void* thr(void* p) {
  const int t = (int)(intptr_t)p;
  for (int i = 0; i < prog[t].n; i++) {
    int got = 0;
    if (prog[t].op[i].try_) {
      g_try_invoke(t);
      got = fiber_spinlock_trylock(&lk) == FIBER_SUCCESS;
      g_try_done(t, got);
    } else {
      g_lock_invoke(t);
      fiber_spinlock_lock(&lk);
      g_acquired(t, 0);
      got = 1;
    }
    if (got) {
      /* a plain read-modify-write of heap data inside the critical section: the next owner must see it */
      long v = *shared;
      for (int k = 0; k < prog[t].op[i].cs; k++) sim_yield_point();
      *shared = v + 1;
      g_acquisitions();
      g_release(t);
      fiber_spinlock_unlock(&lk);
      sim_tso_sync(); /* the ghost regards the lock as free from g_release on */
    }
  }
  return NULL;
}
void h_run(void) {
  sim_cfg_t c = sim_config(1, 1, 0, FBIT(F_STALL));
  nth = wl_int(2, MAXTH);
  int total = 0;
  const int maxops = sim_tier_thorough() ? MAXOPS : 4;
  for (int t = 0; t < nth; t++) {
    prog[t].n = wl_int(1, maxops);
    for (int i = 0; i < prog[t].n; i++) {
      prog[t].op[i].try_ = wl_pct(25);
      prog[t].op[i].cs = wl_int(0, 3);
    }
    total += prog[t].n;
  }
  int near_wrap = wl_pct(40);
  uint32_t start = near_wrap ? 0xFFFFFFFFu - (uint32_t)wl_int(0, 4) : 0;
  sim_describe("threads=%d ops=%d ticket_start=%#x preempt=1/%d", nth, total, start, c.preempt_inv);
  lk_p = h_dirty_alloc(sizeof *lk_p);
  shared = calloc(1, sizeof *shared);
  if (wl_pct(40)) sim_tso_enable_plain();
  fiber_spinlock_init(&lk);
  lk.state.counters.ticket = start;
  lk.state.counters.users = start;
  sim_hook_spin = on_spin;
  pthread_t th[MAXTH];
  /* thread ids under the simulator: main is 0, created threads are 1..nth in creation order */
  for (int t = 0; t < nth; t++) pthread_create(&th[t], NULL, thr, (void*)(intptr_t)t);
  for (int t = 0; t < nth; t++) pthread_join(th[t], NULL);
  if (*shared != acquisitions) sim_violation("C18-lost-update", "%ld critical sections incremented the shared counter, which holds %ld", acquisitions, *shared);
  if (occ) sim_violation("C18-held-at-rest", "lock still held after all threads finished");
  if (lk.state.counters.ticket != lk.state.counters.users) sim_violation("C18-state-at-rest", "ticket %u != users %u at rest", lk.state.counters.ticket, lk.state.counters.users);
  fiber_spinlock_destroy(&lk);
  free(lk_p);
  sim_finish_ok();
}
