/* C04 - join / tryjoin / detach: result delivered once, fiber reclaimed once, never early */
#include "common.h"
#include "fiber_event.h"
#include "fiber_manager.h"

const char* const H_NAME = "c04_join";
const char* const H_PROPERTY = "C04";

#define MAXP 5
enum { OW_JOIN = 0, OW_TRY_THEN_JOIN, OW_TRY_UNTIL, OW_DETACH_EARLY, OW_DETACH_LATE, OW_SECOND_JOINER, OW_DETACHED_THEN_JOIN, OW_RACING_TRYJOIN, OW_JOIN_THEN_DETACH, OW_NKINDS };
static struct {
  int kind, tries, owner_pre, target_pre, target_sleep;
  fiber_t* target;
  volatile int gate;      /* target may finish */
  int returned;           /* ghost: target's function executed its last statement */
  int released;           /* ghost: owner's join/tryjoin succeeded or detach returned */
  int successes;
  void* expect;
} P[MAXP];
static int npairs;

static NS void g_returning(int i) { P[i].returned = 1; }
static NS void g_before_api(int i, const char* api) {
  if (!P[i].released && !sim_mem_is_live(P[i].target))
    sim_violation("C04-reclaimed-early", "pair %d: target control block is no longer live memory before its owner called %s", i, api);
}
static NS void g_join_ok(int i, void* res, const char* api) {
  if (!P[i].returned) sim_violation("C04-join-before-return", "pair %d: %s succeeded before the target's function returned", i, api);
  if (res != P[i].expect) sim_violation("C04-wrong-result", "pair %d: %s delivered %p, the fiber returned %p", i, api, res, P[i].expect);
  if (++P[i].successes > 1) sim_violation("C04-two-joiners", "pair %d: a second join succeeded", i);
  P[i].released = 1;
  sim_progress();
}
static NS void g_detached(int i) {
  P[i].released = 1;
  sim_progress();
}
static NS int g_owner_blocked_in_join(int i) { return atomic_load(&P[i].target->detach_state) == FIBER_DETACH_WAIT_TO_JOIN; }
static NS void g_fail(const char* oracle, int i, const char* what) { sim_violation(oracle, "pair %d: %s", i, what); }

static void* target_fn(void* p) {
  const int i = (int)(intptr_t)p;
  for (int k = 0; k < P[i].target_pre; k++) RS0(fiber_yield);
  if (P[i].target_sleep) fiber_sleep(0, 100 * P[i].target_sleep);
  while (!P[i].gate) RS0(fiber_yield);
  g_returning(i);
  return P[i].expect;
}
static void* second_joiner(void* p) {
  const int i = (int)(intptr_t)p;
  /* wait until the first joiner has registered; the gate keeps the target alive meanwhile */
  while (!g_owner_blocked_in_join(i)) RS0(fiber_yield);
  void* r = (void*)0x5a5a;
  if (fiber_join(P[i].target, &r) != FIBER_ERROR) g_fail("C04-second-join-succeeded", i, "fiber_join returned success while another fiber was already joining the target");
  if (fiber_tryjoin(P[i].target, &r) != FIBER_ERROR) g_fail("C04-second-join-succeeded", i, "fiber_tryjoin returned success while another fiber was already joining the target");
  P[i].gate = 1;
  return NULL;
}
/* a third fiber detaches the target while the owner is blocked in fiber_join on it and the target is still
 * running (gate closed). The blocked join must not report success: the fiber has not finished. */
static void* detacher_fn(void* p) {
  const int i = (int)(intptr_t)p;
  while (!g_owner_blocked_in_join(i)) RS0(fiber_yield);
  if (fiber_detach(P[i].target) != FIBER_SUCCESS) g_fail("C04-detach-failed", i, "fiber_detach of a fiber another fiber is joining failed");
  g_detached(i);
  for (int k = 0; k < P[i].tries; k++) RS0(fiber_yield);
  P[i].gate = 1;
  return NULL;
}
/* several fibers call fiber_tryjoin on the same finished fiber at the same time: at most one may succeed.
 * The losers' calls would be use-after-free by the caller once the winner has let the target be reclaimed,
 * so the target's control block is put on hold in the allocator (its free is recorded, the memory stays
 * readable): the oracle here is the number of successes and the delivered value, not memory. */
static void* racer_fn(void* p) {
  const int i = (int)(intptr_t)p;
  void* r = NULL;
  for (int k = 0; k < 40 && !P[i].successes; k++) {
    if (fiber_tryjoin(P[i].target, &r) == FIBER_SUCCESS) {
      g_join_ok(i, r, "fiber_tryjoin (racing)");
      break;
    }
    RS0(fiber_yield);
  }
  return NULL;
}
static void* owner_fn(void* p) {
  const int i = (int)(intptr_t)p;
  fiber_t* const t = P[i].target;
  void* r = NULL;
  for (int k = 0; k < P[i].owner_pre; k++) RS0(fiber_yield);
  switch (P[i].kind) {
    case OW_JOIN:
    case OW_SECOND_JOINER:
      g_before_api(i, "fiber_join");
      if (fiber_join(t, &r) != FIBER_SUCCESS) g_fail("C04-join-failed", i, "fiber_join by the only legitimate joiner failed");
      g_join_ok(i, r, "fiber_join");
      break;
    case OW_JOIN_THEN_DETACH:
      /* the detacher wakes this joiner; whatever the call returns, a success is only legal after the target's
       * function returned and with its value (g_join_ok checks both) */
      if (fiber_join(t, &r) == FIBER_SUCCESS) g_join_ok(i, r, "fiber_join (target detached by a third fiber meanwhile)");
      break;
    case OW_TRY_THEN_JOIN: {
      int done = 0;
      for (int k = 0; k < P[i].tries && !done; k++) {
        g_before_api(i, "fiber_tryjoin");
        if (fiber_tryjoin(t, &r) == FIBER_SUCCESS) {
          g_join_ok(i, r, "fiber_tryjoin");
          done = 1;
        } else
          RS0(fiber_yield);
      }
      if (!done) {
        g_before_api(i, "fiber_join");
        if (fiber_join(t, &r) != FIBER_SUCCESS) g_fail("C04-join-failed", i, "fiber_join after failed tryjoins failed");
        g_join_ok(i, r, "fiber_join");
      }
      break;
    }
    case OW_RACING_TRYJOIN:
    case OW_TRY_UNTIL:
      for (;;) {
        if (P[i].kind == OW_RACING_TRYJOIN && P[i].successes) break; /* a racer won */
        g_before_api(i, "fiber_tryjoin");
        if (fiber_tryjoin(t, &r) == FIBER_SUCCESS) {
          g_join_ok(i, r, "fiber_tryjoin");
          break;
        }
        sim_probe("tryjoin_retry", 1);
        RS0(fiber_yield);
      }
      break;
    case OW_DETACH_EARLY:
    case OW_DETACH_LATE:
      g_before_api(i, "fiber_detach");
      if (fiber_detach(t) != FIBER_SUCCESS) g_fail("C04-detach-failed", i, "fiber_detach of an undetached fiber failed");
      g_detached(i);
      break;
    case OW_DETACHED_THEN_JOIN:
      g_before_api(i, "fiber_detach");
      if (fiber_detach(t) != FIBER_SUCCESS) g_fail("C04-detach-failed", i, "fiber_detach of an undetached fiber failed");
      /* the gate is still closed: the target is running and detached */
      if (fiber_join(t, &r) != FIBER_ERROR) g_fail("C04-join-detached-succeeded", i, "fiber_join of a detached, still running fiber succeeded");
      if (fiber_tryjoin(t, &r) != FIBER_ERROR) g_fail("C04-join-detached-succeeded", i, "fiber_tryjoin of a detached, still running fiber succeeded");
      if (fiber_detach(t) != FIBER_ERROR) g_fail("C04-detach-twice-succeeded", i, "second fiber_detach succeeded");
      g_detached(i);
      P[i].gate = 1;
      break;
  }
  return NULL;
}
void h_run(void) {
  sim_cfg_t c = sim_config(1, 4, 0, FBIT(F_STALL));
  npairs = wl_int(1, sim_tier_thorough() ? MAXP : 4);
  char d[300];
  int dk = 0, nt = 0;
  for (int i = 0; i < npairs; i++) {
    P[i].kind = wl_pick(OW_NKINDS);
    P[i].tries = wl_int(1, 4);
    P[i].owner_pre = wl_int(0, P[i].kind == OW_DETACH_LATE ? 8 : 3);
    P[i].target_pre = wl_int(0, 3);
    P[i].target_sleep = wl_pct(20) ? wl_int(1, 30) : 0;
    /* a yield-polling owner keeps its kernel thread busy, and a busy thread never polls the timer: a
     * sleeping target would never wake on one kernel thread (outside the properties) - keep those apart */
    if (P[i].kind == OW_TRY_UNTIL || P[i].kind == OW_SECOND_JOINER || P[i].kind == OW_DETACHED_THEN_JOIN || P[i].kind == OW_RACING_TRYJOIN || P[i].kind == OW_JOIN_THEN_DETACH) P[i].target_sleep = 0;
    P[i].expect = (void*)(intptr_t)(0x1000 + i);
    P[i].gate = !(P[i].kind == OW_SECOND_JOINER || P[i].kind == OW_DETACHED_THEN_JOIN || P[i].kind == OW_JOIN_THEN_DETACH);
    if (P[i].kind == OW_TRY_UNTIL || P[i].kind == OW_TRY_THEN_JOIN) nt = 1;
    dk += snprintf(d + dk, sizeof d - dk, "[kind%d tries%d opre%d tpre%d tsleep%d] ", P[i].kind, P[i].tries, P[i].owner_pre, P[i].target_pre, P[i].target_sleep);
  }
  sim_describe("threads=%d pairs=%d %s(kinds: 0 join 1 tryjoin*+join 2 tryjoin-until 3/4 detach 5 second joiner 6 detach then join 7 racing tryjoins 8 join, then detached by a third fiber)", c.threads, npairs, d);
  if (c.threads >= 2 || nt) sim_nontrivial();
  sim_fiber_mode();
  fiber_manager_init(c.threads);
  fiber_t *own[MAXP], *sec[MAXP];
  int order = wl_pick(2);
  for (int i = 0; i < npairs; i++) {
    sec[i] = NULL;
    if (order == 0) {
      P[i].target = fiber_create(STK, target_fn, (void*)(intptr_t)i);
      own[i] = fiber_create(STK, owner_fn, (void*)(intptr_t)i);
    } else {
      /* owner first in the run queue (it is created second but the queue is LIFO within a batch; vary with a yield) */
      P[i].target = fiber_create(STK, target_fn, (void*)(intptr_t)i);
      if (wl_pct(50)) fiber_yield();
      own[i] = fiber_create(STK, owner_fn, (void*)(intptr_t)i);
    }
    if (P[i].kind == OW_SECOND_JOINER) sec[i] = fiber_create(STK, second_joiner, (void*)(intptr_t)i);
    if (P[i].kind == OW_JOIN_THEN_DETACH) sec[i] = fiber_create(STK, detacher_fn, (void*)(intptr_t)i);
    if (P[i].kind == OW_RACING_TRYJOIN) {
      sim_mem_hold(P[i].target);
      sec[i] = fiber_create(STK, racer_fn, (void*)(intptr_t)i);
    }
  }
  for (int i = 0; i < npairs; i++) {
    fiber_join(own[i], NULL);
    if (sec[i]) fiber_join(sec[i], NULL);
  }
  /* detached targets may still be running: wait for their functions to return */
  for (int i = 0; i < npairs; i++)
    while (!P[i].returned) fiber_sleep(0, 1000);
  sim_drain();
  for (int i = 0; i < npairs; i++) {
    if (!P[i].released) sim_violation("C04-not-released", "pair %d never joined or detached", i);
    if (!sim_fiber_dead(P[i].target))
      sim_violation("C04-not-reclaimed", "pair %d: target finished and was %s but its control block was not freed by quiescence", i, P[i].successes ? "joined" : "detached");
  }
  sim_check_quiescent();
  sim_finish_ok();
}
