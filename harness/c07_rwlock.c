/* C07 - read/write lock: writers exclusive, readers shared, every release admits waiters,
 * try variants never block and succeed only when legal */
#include "common.h"
#include "fiber_manager.h"
#include "fiber_rwlock.h"

const char* const H_NAME = "c07_rwlock";
const char* const H_PROPERTY = "C07";

#define MAXFB 8
#define MAXOPS 6
enum { R_RD = 0, R_WR, R_TRYRD, R_TRYWR };
static fiber_rwlock_t* rw_p; /* heap memory with arbitrary previous contents */
#define rw (*rw_p)
static int readers, writers;
static int held_by_main; /* read locks the main fiber holds while the workers run (large reader counts) */
static struct {
  int n;
  struct {
    int kind, cs;
  } op[MAXOPS];
} prog[MAXFB];
static int nfib;
/* for the try oracle: number of ghost-state changes; a try that fails although the lock was free during
 * the whole call (no change, nobody inside, nobody waiting) is illegal */
static unsigned long epoch;
static int waiting_ghost; /* fibers inside a blocking rdlock/wrlock call or inside an unlock call that have not returned yet */

static NS void g_enter_r(int who) {
  if (writers) sim_violation("C07-reader-with-writer", "fiber %d holds a read lock while %d writer(s) hold the lock", who, writers);
  readers++;
  epoch++;
}
static NS void g_enter_w(int who) {
  if (writers || readers) sim_violation("C07-writer-not-alone", "fiber %d holds the write lock together with %d writer(s) and %d reader(s)", who, writers, readers);
  writers++;
  epoch++;
}
static NS void g_leave_r(void) {
  readers--;
  waiting_ghost++; /* the unlock call is in progress: the lock word still shows us */
  epoch++;
}
static NS void g_leave_w(void) {
  writers--;
  waiting_ghost++;
  epoch++;
}
static NS void g_unlocked(void) {
  waiting_ghost--;
  epoch++;
}
static NS void g_block_begin(void) {
  waiting_ghost++;
  epoch++;
}
static NS void g_block_end(void) {
  waiting_ghost--;
  epoch++;
}
typedef struct {
  unsigned long epoch;
  int sw, free_;
} snap_t;
static NS snap_t g_snap(void) {
  waiting_ghost++; /* the caller itself is now inside an acquiring call */
  epoch++;
  snap_t s = {epoch, sim_fiber_switch_ins(sim_current_fiber()), readers == 0 && writers == 0 && waiting_ghost == 1};
  return s;
}
static NS void g_try_result(int who, snap_t s, int ok, const char* what, int rd) {
  if (sim_fiber_switch_ins(sim_current_fiber()) != s.sw) sim_violation("C07-try-blocked", "fiber %d was switched out inside %s", who, what);
  if (!ok && s.free_ && s.epoch == epoch)
    sim_violation("C07-try-failed-on-free-lock", "fiber %d: %s failed although nobody held or awaited the lock during the whole call", who, what);
  (void)rd;
  if (ok) {
    if (rd) g_enter_r(who);
    else g_enter_w(who);
  }
  waiting_ghost--;
  epoch++;
  sim_progress();
}
static NS void g_op(void) { sim_progress(); }
static NS void g_main_holds(int n) {
  readers += n;
  epoch++;
}
static NS void g_main_releases(int n) {
  readers -= n;      /* the unlock calls are (about to be) in progress: counted as "inside" until they return */
  waiting_ghost++;
  epoch++;
}
static NS void g_main_released(void) {
  waiting_ghost--;
  epoch++;
}

static void cs(int k) {
  if (k == 1) RS0(fiber_yield);
  else if (k == 2) { RS0(fiber_yield); RS0(fiber_yield); }
}
static void* fib(void* p) {
  const int who = (int)(intptr_t)p;
  for (int i = 0; i < prog[who].n; i++) {
    const int c = prog[who].op[i].cs;
    switch (prog[who].op[i].kind) {
      case R_RD:
        g_block_begin();
        RS1(fiber_rwlock_rdlock, &rw);
        g_block_end();
        g_enter_r(who);
        cs(c);
        g_leave_r();
        RS1(fiber_rwlock_rdunlock, &rw);
        g_unlocked();
        break;
      case R_WR:
        g_block_begin();
        RS1(fiber_rwlock_wrlock, &rw);
        g_block_end();
        g_enter_w(who);
        cs(c);
        g_leave_w();
        RS1(fiber_rwlock_wrunlock, &rw);
        g_unlocked();
        break;
      case R_TRYRD: {
        snap_t s = g_snap();
        int ok = fiber_rwlock_tryrdlock(&rw) == FIBER_SUCCESS;
        g_try_result(who, s, ok, "fiber_rwlock_tryrdlock", 1);
        if (ok) {
          cs(c);
          g_leave_r();
          RS1(fiber_rwlock_rdunlock, &rw);
          g_unlocked();
        }
        break;
      }
      default: {
        snap_t s = g_snap();
        int ok = fiber_rwlock_trywrlock(&rw) == FIBER_SUCCESS;
        g_try_result(who, s, ok, "fiber_rwlock_trywrlock", 0);
        if (ok) {
          cs(c);
          g_leave_w();
          RS1(fiber_rwlock_wrunlock, &rw);
          g_unlocked();
        }
      }
    }
    g_op();
  }
  return NULL;
}
/* ---- reader rendezvous: "every unlock that leaves waiters admits ... all currently waiting readers".
 * The main fiber holds the write lock until R readers are queued behind it (R may exceed the number of kernel
 * threads), then unlocks. Every reader stays inside its read section until all R are inside: that only
 * terminates if the one unlock admitted all of them. ---- */
static int rv_r;
static _Atomic int rv_inside; /* readers run in parallel: counted atomically */
static NS int rv_waiting(void) {
  fiber_rwlock_state_t st;
  st.blob = rw.state.blob;
  return (int)st.state.waiting_readers;
}
static NS void rv_progress(void) { sim_progress(); }
static void* rv_reader(void* p) {
  (void)p;
  fiber_rwlock_rdlock(&rw);
  atomic_fetch_add(&rv_inside, 1);
  rv_progress();
  while (atomic_load(&rv_inside) < rv_r) fiber_yield();
  fiber_rwlock_rdunlock(&rw);
  rv_progress();
  return NULL;
}
static void run_rendezvous(sim_cfg_t c) {
  rv_r = wl_int(2, 7);
  sim_scenario("reader-rendezvous");
  sim_describe("threads=%d reader rendezvous: %d readers queued behind one writer, admitted by its unlock preempt=1/%d", c.threads, rv_r, c.preempt_inv);
  sim_nontrivial();
  sim_fiber_mode();
  fiber_manager_init(c.threads);
  rw_p = h_dirty_alloc(sizeof *rw_p);
  fiber_rwlock_init(&rw);
  fiber_rwlock_wrlock(&rw);
  fiber_t* f[8];
  for (int i = 0; i < rv_r; i++) f[i] = fiber_create(STK, rv_reader, NULL);
  while (rv_waiting() < rv_r) fiber_yield();
  fiber_rwlock_wrunlock(&rw);
  for (int i = 0; i < rv_r; i++) fiber_join(f[i], NULL);
  if (rw.state.blob != 0) sim_violation("C07-state-at-rest", "lock word %#lx after every fiber released", (unsigned long)rw.state.blob);
  fiber_rwlock_destroy(&rw);
  free(rw_p);
  h_fiber_end();
}
void h_run(void) {
  sim_cfg_t c = sim_config(1, 4, 0, FBIT(F_STALL));
  if (wl_pct(10)) {
    run_rendezvous(c);
    return;
  }
  nfib = wl_int(2, 7);
  int nwr = 0, nrd = 0;
  const int maxops = sim_tier_thorough() ? MAXOPS : 4;
  for (int f = 0; f < nfib; f++) {
    prog[f].n = wl_int(1, maxops);
    for (int i = 0; i < prog[f].n; i++) {
      int r = wl_pick(10);
      int k = r < 4 ? R_RD : r < 7 ? R_WR : r < 9 ? R_TRYRD : R_TRYWR;
      prog[f].op[i].kind = k;
      prog[f].op[i].cs = wl_pick(3);
      nwr += (k == R_WR || k == R_TRYWR);
      nrd += (k == R_RD || k == R_TRYRD);
    }
  }
  static const int big[] = {1, 255, 256, 4095, 4096, 65535, 65536, (1 << 21) - 16};
  held_by_main = wl_pct(20) ? big[wl_pick(8)] : 0;
  sim_describe("threads=%d fibers=%d read_ops=%d write_ops=%d readers_held_by_main=%d preempt=1/%d", c.threads, nfib, nrd, nwr, held_by_main, c.preempt_inv);
  if (nwr >= 1 && nfib >= 2) sim_nontrivial();
  sim_fiber_mode();
  fiber_manager_init(c.threads);
  rw_p = h_dirty_alloc(sizeof *rw_p);
  fiber_rwlock_init(&rw);
  /* unusual input: very many simultaneous readers.  The main fiber takes X read locks (the state after X
   * uncontended rdlock calls, written directly to save steps), lets the workers run for a while and then
   * gives them back one by one. */
  if (held_by_main) {
    fiber_rwlock_state_t st;
    st.blob = 0;
    st.state.reader_count = (unsigned)held_by_main;
    rw.state.blob = st.blob;
    g_main_holds(held_by_main);
  }
  fiber_t* f[MAXFB];
  for (int i = 0; i < nfib; i++) f[i] = fiber_create(STK, fib, (void*)(intptr_t)i);
  if (held_by_main) {
    for (int k = 0; k < 6; k++) fiber_yield();
    g_main_releases(held_by_main);
    /* all but the last release: what held_by_main - 1 rdunlock calls do to the lock word, in one step */
    for (;;) {
      fiber_rwlock_state_t st;
      const uint64_t snap = rw.state.blob;
      st.blob = snap;
      st.state.reader_count -= (unsigned)(held_by_main - 1);
      if (__sync_bool_compare_and_swap(&rw.state.blob, snap, st.blob)) break;
    }
    fiber_rwlock_rdunlock(&rw); /* the last one may hand the lock to a waiting writer */
    g_main_released();
  }
  for (int i = 0; i < nfib; i++) fiber_join(f[i], NULL);
  if (rw.state.blob != 0) sim_violation("C07-state-at-rest", "lock word %#lx after every fiber released", (unsigned long)rw.state.blob);
  fiber_rwlock_destroy(&rw);
  free(rw_p);
  h_fiber_end();
}
