/* C10 - fiber_yield fairness: a ready fiber is bypassed a bounded number of
 * times; yield-based polling loops terminate. */
#define H_WITH_DEFERRED_UNLOCK
#include "common.h"
#include "fiber_manager.h"
#include "fiber_mutex.h"

const char* const H_NAME = "c10_yield";
const char* const H_PROPERTY = "C10";

#define MAXFB 1024
#define CROWD_STK 32768
enum { ROLE_SETTER = 0, ROLE_POLLER, ROLE_YIELDER, ROLE_LOCKER, ROLE_HOLDER };
static fiber_mutex_t mx;
static int with_mutex;
static int nfib, nthreads;
static volatile int flag[MAXFB];
static long ready_since[MAXFB]; /* -1: not waiting in a run queue */
static struct {
  int role, k, flag_idx, spawn_late;
} spec[MAXFB];
static long bound;
static fiber_t* fptr[MAXFB];

static NS long total_sw(void) { return (long)sim_switch_ins_others(NULL); }
static NS void g_ready(int i) { ready_since[i] = total_sw(); }
static int crowd;
static long g_calls;
static NS void g_running(int i) {
  ready_since[i] = -1;
  /* crowd programs: the waiting counts only grow while a fiber stays queued, so looking at every fiber on
   * every 16th switch loses nothing but keeps the oracle linear */
  if (crowd && (++g_calls & 15)) return;
  /* any number of kernel threads: a fiber sitting in the run queue of kernel thread A is bypassed once for
   * every fiber switch on A (exact: counted from the moment it was pushed into that queue) */
  for (int j = 0; j < nfib; j++)
    if (j != i && fptr[j]) {
      long b = sim_fiber_bypassed(fptr[j]);
      if (b > bound)
        sim_violation("C10-bypassed", "fiber %d has been in a kernel thread's run queue while that thread switched fibers %ld times (bound %ld for %d fibers, %d kernel threads)", j, b, bound,
                      nfib, nthreads);
    }
  if (nthreads != 1) return;
  long now = total_sw();
  for (int j = 0; j < nfib; j++)
    if (j != i && ready_since[j] >= 0 && now - ready_since[j] > bound)
      sim_violation("C10-bypassed", "fiber %d has been ready while other fibers were switched in %ld times (bound %ld for %d fibers)", j, now - ready_since[j], bound, nfib);
}
static NS void g_done(void) { sim_progress(); }

static void* fib(void* p) {
  const int i = (int)(intptr_t)p;
  g_running(i);
  switch (spec[i].role) {
    case ROLE_SETTER:
      for (int k = 0; k < spec[i].k; k++) {
        g_ready(i);
        RS0(fiber_yield);
        g_running(i);
        g_done(); /* (a step of a bounded loop is progress: in a crowd one round of yields is 100 000 scheduling points) */
      }
      flag[spec[i].flag_idx] = 1;
      break;
    case ROLE_POLLER:
      while (!flag[spec[i].flag_idx]) {
        g_ready(i);
        RS0(fiber_yield);
        g_running(i);
      }
      break;
    case ROLE_LOCKER:
      /* blocks on the mutex, is made ready by the holder's unlock (possibly on another kernel thread) and must
       * then get its turn although everybody else only yields; it is the setter of its flag */
      for (int k = 0; k < spec[i].k / 2; k++) {
        g_ready(i);
        RS0(fiber_yield);
        g_running(i);
        g_done();
      }
      RS1(fiber_mutex_lock, &mx);
      g_running(i);
      g_done();
      fiber_mutex_unlock(&mx);
      flag[spec[i].flag_idx] = 1;
      break;
    case ROLE_HOLDER:
      RS1(fiber_mutex_lock, &mx);
      g_running(i);
      g_done();
      for (int k = 0; k < spec[i].k; k++) {
        g_ready(i);
        RS0(fiber_yield);
        g_running(i);
        g_done();
      }
      fiber_mutex_unlock(&mx);
      while (!flag[spec[i].flag_idx]) {
        g_ready(i);
        RS0(fiber_yield);
        g_running(i);
      }
      break;
    default:
      for (int k = 0; k < spec[i].k; k++) {
        g_ready(i);
        RS0(fiber_yield);
        g_running(i);
        g_done();
      }
  }
  g_done();
  return NULL;
}
/* ---- a polling loop on one kernel thread, the fiber it waits for ready on another thread whose current fiber
 * is busy and does not yield: the poller's thread has to come and take it (it balances its load on every
 * 1024th yield), however often the poller finds nothing to switch to ---- */
static volatile int bz_flag, bz_b_ran;
static volatile long bz_yields;
static void* bz_setter(void* p) {
  (void)p;
  bz_b_ran = 1;
  bz_flag = 1;
  sim_progress();
  return NULL;
}
static void* bz_poller(void* p) {
  (void)p;
  while (!bz_flag) {
    bz_yields++;
    fiber_yield();
  }
  sim_progress();
  return NULL;
}
static void run_busy_thread(void) {
  sim_cfg_t c = sim_config(2, 3, 0, FBIT(F_STALL));
  const int pre = wl_int(0, 40);
  sim_scenario("busy-thread-ready-fiber");
  sim_describe("threads=%d the main fiber computes without yielding while the setter is queued behind it; a poller yields elsewhere (pre-yields %d) preempt=1/%d cost=%dns", c.threads, pre,
               c.preempt_inv, c.cost_ns);
  sim_nontrivial();
  sim_fiber_mode();
  fiber_manager_init(c.threads);
  fiber_t* a = fiber_create(STK, bz_poller, NULL);
  for (int k = 0; k < pre; k++) fiber_yield(); /* the poller gets going (here or, stolen, on another thread) */
  fiber_t* b = fiber_create(STK, bz_setter, NULL);
  const long y0 = bz_yields;
  while (!bz_b_ran && bz_yields - y0 < 6000) sim_compute(200000); /* busy: 0.2 ms at a time, never yielding */
  if (!bz_b_ran && bz_yields - y0 >= 6000)
    sim_violation("C10-ready-fiber-never-fetched", "the setter has been ready for %ld yields of the polling fiber and no kernel thread has run it", bz_yields - y0);
  fiber_join(a, NULL);
  fiber_join(b, NULL);
  h_fiber_end();
}
void h_run(void) {
  if (wl_pct(6)) {
    run_busy_thread();
    return;
  }
  if (wl_pct(15)) { /* polling loops next to a mutex hand-off that the thread's maintenance fiber has to complete */
    h_deferred_unlock_scenario("C10-polling-loop-starved");
    return;
  }
  sim_cfg_t c = sim_config(1, 3, 65, FBIT(F_STALL));
  nthreads = c.threads;
  /* "for any number of ready fibers": one program in sixteen is a crowd of up to 800 fibers (beyond the sizes
   * of the deque's first arrays and of any batch), a handful of them with drawn roles, the rest yielding */
  crowd = wl_pct(6);
  with_mutex = wl_pct(35); /* some fibers become ready through a mutex hand-off instead of a yield */
  g_calls = 0;
  nfib = crowd ? wl_int(7, 100) * wl_int(1, 8) : wl_int(2, 6);
  int nflags = wl_int(1, 2);
  int have_setter[2] = {0, 0};
  const int crowd_k = crowd ? wl_int(1, 3) : 0;
  const int crowd_polls = crowd && wl_pct(50); /* the crowd polls flag 0 instead of yielding a fixed number of times */
  for (int i = 0; i < nfib; i++) {
    if (i < 6) {
      spec[i].role = wl_pick(with_mutex ? 5 : 3);
      spec[i].k = wl_int(0, 6);
      spec[i].flag_idx = wl_pick(nflags);
    } else {
      spec[i].role = crowd_polls ? ROLE_POLLER : ROLE_YIELDER;
      spec[i].k = crowd_k;
      spec[i].flag_idx = 0;
    }
    ready_since[i] = -1;
    if (spec[i].role == ROLE_SETTER || spec[i].role == ROLE_LOCKER) have_setter[spec[i].flag_idx] = 1;
  }
  /* every polled flag needs a setter: deadlock-free by construction */
  for (int i = 0; i < nfib; i++)
    if ((spec[i].role == ROLE_POLLER || spec[i].role == ROLE_HOLDER) && !have_setter[spec[i].flag_idx]) {
      spec[i].role = ROLE_SETTER;
      have_setter[spec[i].flag_idx] = 1;
    }
  bound = 4 * (nfib + 2);
  char d[160];
  int k = 0;
  int pollers = 0;
  for (int i = 0; i < nfib; i++) {
    if (i < 6) k += snprintf(d + k, sizeof d - k, "%c%d/f%d ", "SPYLH"[spec[i].role], spec[i].k, spec[i].flag_idx);
    pollers += spec[i].role == ROLE_POLLER;
  }
  if (crowd) {
    snprintf(d + k, sizeof d - k, crowd_polls ? "+ %d x P/f0 " : "+ %d x Y%d ", nfib - 6, crowd_k);
    sim_probe("crowd", 1);
    if (nfib > 256) sim_probe("crowd_over_256", 1);
  }
  sim_describe("threads=%d fibers: %s(S=setter after k yields, P=poller, Y=k yields, L=locks the mutex then sets, H=holds the mutex over k yields then polls)", c.threads, d);
  if (pollers >= 1 && nfib >= 3) sim_nontrivial();
  sim_fiber_mode();
  fiber_manager_init(c.threads);
  fiber_mutex_init(&mx);
  static fiber_t* f[MAXFB];
  for (int i = 0; i < nfib; i++) fptr[i] = NULL;
  for (int i = 0; i < nfib; i++) {
    g_ready(i);
    f[i] = fiber_create(crowd ? CROWD_STK : STK, fib, (void*)(intptr_t)i);
    fptr[i] = f[i];
    if (i < 6 && wl_pct(30)) fiber_yield();
  }
  for (int i = 0; i < nfib; i++) fiber_join(f[i], NULL);
  h_fiber_end();
}
