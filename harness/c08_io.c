/* C08 - shimmed descriptor I/O behaves like the blocking POSIX call it replaces.
 * The simulated kernel knows the truth (what every underlying call returned). */
#include <fcntl.h>
#include <limits.h>
#include <netinet/in.h>
#include <sys/ioctl.h>
#include <sys/socket.h>
#include <sys/uio.h>
#include <unistd.h>

#include "common.h"
#include "fiber_event.h"
#include "fiber_manager.h"

const char* const H_NAME = "c08_io";
const char* const H_PROPERTY = "C08";

enum { SC_STREAM = 0, SC_ACCEPT, SC_MODES, SC_CLOSE, SC_INVALID, SC_PEER_CLOSE, SC_DUPLEX, SC_NKINDS };
enum { SH_READ = 0, SH_READV, SH_RECV, SH_RECVFROM, SH_RECVMSG, SH_WRITE, SH_WRITEV, SH_SEND, SH_SENDTO, SH_SENDMSG, SH_ACCEPT, SH_CONNECT, SH_CLOSE, SH_FCNTL, SH_IOCTL, SH_N };
static const char* const shn[SH_N] = {"read", "readv", "recv", "recvfrom", "recvmsg", "write", "writev", "send", "sendto", "sendmsg", "accept", "connect", "close", "fcntl", "ioctl"};

#define MAXFDS 64
static int nonblock_mode[MAXFDS]; /* what the program asked for: 0 blocking (default), 1 non-blocking */
static int is_socket[MAXFDS];
static volatile int closing[MAXFDS]; /* the program has called (or is calling) close() on it */
static int scenario, nthreads;

typedef struct {
  long ret;
  int err;
  simk_call_t k;
  int switched;
} io_res_t;

/* errno lives in thread-local storage and a fiber may return from a call on another kernel thread than the
 * one it entered on: never let the compiler cache its address across such a call */
static __attribute__((noinline)) int get_errno(void) { return errno; }
static __attribute__((noinline)) void set_errno(int e) { errno = e; }
/* a call that must not suspend is in progress in this fiber (checked at every context switch) */
static void* nb_fiber;
static const char* nb_what;
static NS void on_switch(void) {
  if (nb_fiber && sim_old_fiber() == nb_fiber)
    sim_violation("C08-nonblocking-call-suspended", "the fiber was suspended inside %s although the call must return immediately", nb_what);
}
static NS void nb_enter(int fd, int dontwait, const char* what) {
  if ((fd >= 0 && fd < MAXFDS && nonblock_mode[fd]) || dontwait) {
    nb_fiber = sim_current_fiber();
    nb_what = what;
  }
}
static NS void nb_leave(void) { nb_fiber = NULL; }
/* ---- generic checked call ---- */
static NS int g_sw(void) { return sim_fiber_switch_ins(sim_current_fiber()); }
static NS void g_begin(void) { simk_call_begin(); }
static NS void g_check(int shim, int fd, size_t n, int msg_dontwait, io_res_t* r, int sw0, int valid_fd) {
  simk_call_end(&r->k);
  r->switched = sim_fiber_switch_ins(sim_current_fiber()) != sw0;
  if (r->switched) sim_nontrivial();
  const simk_call_t* k = &r->k;
  if (!valid_fd) return; /* the invalid-descriptor scenario has its own oracle */
  /* the descriptor was closed (by another fiber) while this call was waiting on it: the shim gives up with
   * -1 and leaves errno alone; no particular errno is demanded for that path (DESIGN 3/C08) */
  if (r->ret == -1 && k->waits > 0 && (closing[fd] || !simk_fd_open(fd))) {
    sim_progress();
    return;
  }
  /* O1: the result is the result of the last underlying call; earlier ones transferred nothing */
  if (k->n_under == 0) {
    if (r->ret != -1) sim_violation("C08-result-from-nowhere", "%s(fd %d) returned %ld without making any underlying call", shn[shim], fd, r->ret);
  } else {
    if (r->ret != k->last_ret && !(shim == SH_CONNECT && r->ret == 0) && !(shim == SH_CONNECT && r->ret == -1))
      sim_violation("C08-result-mismatch", "%s(fd %d) returned %ld but its last underlying call returned %ld (data dropped or duplicated)", shn[shim], fd, r->ret, k->last_ret);
    if (!k->prev_all_again)
      sim_violation("C08-retry-after-transfer", "%s(fd %d) called the underlying function again although an earlier call in the same invocation had not returned EAGAIN", shn[shim], fd);
    if (r->ret < 0 && shim != SH_CONNECT && r->err != k->last_errno)
      sim_violation("C08-errno-mismatch", "%s(fd %d) failed with errno %d but the underlying call reported errno %d", shn[shim], fd, r->err, k->last_errno);
  }
  const int nb = nonblock_mode[fd] || msg_dontwait;
  /* O2: blocking mode never reports EAGAIN */
  /* (when the shim gave up because the descriptor was closed while it waited it makes no underlying call and
   * leaves errno alone; no particular errno is demanded for that path) */
  if (!nb && r->ret == -1 && k->n_under > 0 && (r->err == EAGAIN || r->err == EWOULDBLOCK))
    sim_violation("C08-eagain-in-blocking-mode", "%s(fd %d) failed with EAGAIN although the descriptor is in blocking mode", shn[shim], fd);
  /* O3: non-blocking calls return immediately */
  if (nb && (r->switched || k->waits))
    sim_violation("C08-nonblocking-call-suspended", "%s(fd %d) suspended the calling fiber although %s", shn[shim], fd, msg_dontwait ? "MSG_DONTWAIT was given" : "the descriptor is in non-blocking mode");
  /* O4: a transfer may be short but never empty */
  if (r->ret == 0 && n != 0 && shim <= SH_SENDMSG && !k->kernel_eof)
    sim_violation("C08-empty-transfer", "%s(fd %d, %zu bytes) returned 0 although the kernel reported no end of file", shn[shim], fd, n);
  sim_progress();
}
static io_res_t io_rw(int shim, int fd, unsigned char* buf, size_t n, int flags, int valid_fd) {
  io_res_t r;
  memset(&r, 0, sizeof r);
  int sw0 = g_sw();
  g_begin();
  if (valid_fd) nb_enter(fd, (flags & MSG_DONTWAIT) != 0, shn[shim]);
  set_errno(0);
  struct iovec iov[2];
  struct msghdr mh;
  size_t h = n / 2;
  switch (shim) {
    case SH_READ:
      r.ret = read(fd, buf, n);
      break;
    case SH_READV:
      iov[0].iov_base = buf;
      iov[0].iov_len = h;
      iov[1].iov_base = buf + h;
      iov[1].iov_len = n - h;
      r.ret = readv(fd, iov, 2);
      break;
    case SH_RECV:
      r.ret = recv(fd, buf, n, flags);
      break;
    case SH_RECVFROM:
      r.ret = recvfrom(fd, buf, n, flags, NULL, NULL);
      break;
    case SH_RECVMSG:
      memset(&mh, 0, sizeof mh);
      iov[0].iov_base = buf;
      iov[0].iov_len = h;
      iov[1].iov_base = buf + h;
      iov[1].iov_len = n - h;
      mh.msg_iov = iov;
      mh.msg_iovlen = 2;
      r.ret = recvmsg(fd, &mh, flags);
      break;
    case SH_WRITE:
      r.ret = write(fd, buf, n);
      break;
    case SH_WRITEV:
      iov[0].iov_base = buf;
      iov[0].iov_len = h;
      iov[1].iov_base = buf + h;
      iov[1].iov_len = n - h;
      r.ret = writev(fd, iov, 2);
      break;
    case SH_SEND:
      r.ret = send(fd, buf, n, flags);
      break;
    case SH_SENDTO:
      r.ret = sendto(fd, buf, n, flags, NULL, 0);
      break;
    default:
      memset(&mh, 0, sizeof mh);
      iov[0].iov_base = buf;
      iov[0].iov_len = h;
      iov[1].iov_base = buf + h;
      iov[1].iov_len = n - h;
      mh.msg_iov = iov;
      mh.msg_iovlen = 2;
      r.ret = sendmsg(fd, &mh, flags);
  }
  r.err = get_errno();
  nb_leave();
  g_check(shim, fd, n, (flags & MSG_DONTWAIT) != 0, &r, sw0, valid_fd);
  return r;
}
static int pick_shim(int writer, int sock) {
  if (writer) return SH_WRITE + (sock ? wl_pick(5) : wl_pick(2));
  return SH_READ + (sock ? wl_pick(5) : wl_pick(2));
}

/* =============== scenario STREAM =============== */
#define MAXW 3
#define MAXRD 3
#define MAXBYTES 600
static int rfd, wfd, nwriters, nreaders, cap;
static struct {
  int total, nchunks, chunk[8], shim[8];
} wr[MAXW];
static struct {
  int nreads_max, size[8], shim[8];
} rd[MAXRD];
static short logb[MAXBYTES]; /* byte received at each stream offset, -1 = none */
static int writers_left, received_total, written_total;
static int ticker_reps;

static NS void g_log(uint64_t off, const unsigned char* b, long n) {
  for (long i = 0; i < n; i++) {
    if (off + i >= MAXBYTES) sim_violation("C08-data-invented", "read delivered stream offset %lu beyond everything written", (unsigned long)(off + i));
    if (logb[off + i] >= 0) sim_violation("C08-data-duplicated", "stream offset %lu delivered twice", (unsigned long)(off + i));
    logb[off + i] = b[i];
  }
  received_total += (int)n;
}
static NS int g_writer_done(void) { return --writers_left == 0; }
static NS void g_written(long n) { written_total += (int)n; }
static void* stream_writer(void* p) {
  const int w = (int)(intptr_t)p;
  unsigned char buf[160];
  int seq = 0, sent = 0;
  for (int c = 0; c < wr[w].nchunks && sent < wr[w].total; c++) {
    int n = wr[w].chunk[c];
    if (n > wr[w].total - sent || c == wr[w].nchunks - 1) n = wr[w].total - sent;
    if (n > (int)sizeof buf) n = sizeof buf;
    int off = 0;
    while (off < n) { /* write-all loop, as with any blocking descriptor */
      for (int i = off; i < n; i++) buf[i] = (unsigned char)((w << 6) | ((seq + i - off) & 63));
      io_res_t r = io_rw(wr[w].shim[c], wfd, buf + off, (size_t)(n - off), 0, 1);
      if (r.ret < 0) sim_violation("C08-write-failed", "writer %d: %s failed with errno %d on an open stream", w, shn[wr[w].shim[c]], r.err);
      g_written(r.ret);
      seq += (int)r.ret;
      off += (int)r.ret;
    }
    sent += n;
  }
  if (g_writer_done()) close(wfd); /* last writer closes: readers see end of file */
  return NULL;
}
static void* stream_reader(void* p) {
  const int rdr = (int)(intptr_t)p;
  unsigned char buf[200];
  for (int i = 0;; i++) {
    int k = i < 8 ? i : 7;
    int n = rd[rdr].size[k];
    io_res_t r = io_rw(rd[rdr].shim[k], rfd, buf, (size_t)n, 0, 1);
    if (r.ret < 0) sim_violation("C08-read-failed", "reader %d: %s failed with errno %d on an open stream", rdr, shn[rd[rdr].shim[k]], r.err);
    if (r.ret == 0) break; /* end of file */
    g_log(r.k.last_off, buf, r.ret);
  }
  return NULL;
}
static void* ticker(void* p) {
  (void)p;
  for (int i = 0; i < ticker_reps; i++) {
    RS0(fiber_yield);
    sim_progress();
  }
  return NULL;
}
static void run_stream(sim_cfg_t c) {
  int sock = wl_pct(50);
  nwriters = wl_int(1, MAXW);
  nreaders = wl_int(1, MAXRD);
  static const int sizes[] = {1, 2, 3, 5, 8, 13, 0, 0, 0, 0};
  int sz[10];
  memcpy(sz, sizes, sizeof sz);
  sz[6] = cap;
  sz[7] = cap + 1;
  sz[8] = 2 * cap;
  sz[9] = 8 * cap;
  int all = 0;
  for (int w = 0; w < nwriters; w++) {
    wr[w].nchunks = wl_int(1, 5);
    wr[w].total = 0;
    for (int k = 0; k < wr[w].nchunks; k++) {
      int n = sz[wl_pick(10)];
      if (n > 150) n = 150;
      if (n < 1) n = 1;
      wr[w].chunk[k] = n;
      wr[w].shim[k] = pick_shim(1, sock);
      wr[w].total += n;
    }
    if (wr[w].total > 180) wr[w].total = 180;
    all += wr[w].total;
  }
  for (int r = 0; r < nreaders; r++)
    for (int k = 0; k < 8; k++) {
      int n = sz[wl_pick(10)];
      if (n > 190) n = 190;
      if (n < 1) n = 1;
      rd[r].size[k] = n;
      rd[r].shim[k] = pick_shim(0, sock);
    }
  ticker_reps = wl_int(0, 12);
  sim_describe("threads=%d stream %s writers=%d readers=%d bytes=%d capacity=%d ticker=%d preempt=1/%d faults=%#x", c.threads, sock ? "socketpair" : "pipe", nwriters, nreaders, all, cap, ticker_reps,
               c.preempt_inv, c.faults);
  for (int i = 0; i < MAXBYTES; i++) logb[i] = -1;
  int fds[2];
  if (sock) {
    if (socketpair(AF_UNIX, SOCK_STREAM, 0, fds)) sim_violation("C08-setup", "socketpair failed errno %d", errno);
    rfd = fds[0];
    wfd = fds[1];
    is_socket[rfd] = is_socket[wfd] = 1;
  } else {
    if (pipe(fds)) sim_violation("C08-setup", "pipe failed errno %d", errno);
    rfd = fds[0];
    wfd = fds[1];
  }
  writers_left = nwriters;
  fiber_t* f[MAXW + MAXRD + 1];
  int n = 0;
  int readers_first = wl_pct(50);
  if (readers_first)
    for (int r = 0; r < nreaders; r++) f[n++] = fiber_create(STK, stream_reader, (void*)(intptr_t)r);
  for (int w = 0; w < nwriters; w++) f[n++] = fiber_create(STK, stream_writer, (void*)(intptr_t)w);
  if (!readers_first)
    for (int r = 0; r < nreaders; r++) f[n++] = fiber_create(STK, stream_reader, (void*)(intptr_t)r);
  if (ticker_reps) f[n++] = fiber_create(STK, ticker, NULL);
  for (int i = 0; i < n; i++) fiber_join(f[i], NULL);
  if (received_total != all || written_total != all)
    sim_violation("C08-data-lost", "%d bytes written (%d accepted by the kernel), %d delivered to readers before end of file", all, written_total, received_total);
  int nextseq[MAXW] = {0, 0, 0};
  for (int o = 0; o < all; o++) {
    if (logb[o] < 0) sim_violation("C08-data-lost", "stream offset %d never delivered", o);
    int w = logb[o] >> 6, s = logb[o] & 63;
    if (w >= nwriters || s != (nextseq[w] & 63)) sim_violation("C08-data-out-of-order", "offset %d: byte of writer %d with sequence %d, expected %d", o, w, s, nextseq[w] & 63);
    nextseq[w]++;
  }
  close(rfd);
}

/* =============== scenario ACCEPT =============== */
#define MAXCONN 4
static int lfd, nconn, nacceptors, accepted_total, conn_ok_total;
static unsigned char seen_client[MAXFDS];
static NS void g_accepted(int cfd_client) { /* the kernel's serial number of the connection */
  if (cfd_client < 1 || cfd_client >= MAXFDS) sim_violation("C08-accept-garbage", "accept returned connection #%d which the kernel never created", cfd_client);
  if (seen_client[cfd_client]) sim_violation("C08-accept-duplicated", "connection #%d was handed to two accept calls", cfd_client);
  seen_client[cfd_client] = 1;
  accepted_total++;
}
static NS void g_connected(void) { conn_ok_total++; }
static io_res_t do_accept(int fd) {
  io_res_t r;
  memset(&r, 0, sizeof r);
  int sw0 = g_sw();
  g_begin();
  set_errno(0);
  r.ret = accept(fd, NULL, NULL);
  r.err = get_errno();
  g_check(SH_ACCEPT, fd, 1, 0, &r, sw0, 1);
  return r;
}
static fiber_t* acceptor_fiber[2];
static volatile int listener_closed;
static void* acceptor(void* p) {
  const int a = (int)(intptr_t)p;
  for (;;) { /* accepts until the listening socket is closed under it */
    io_res_t r = do_accept(lfd);
    if (r.ret < 0) {
      if (!listener_closed) sim_violation("C08-accept-failed", "acceptor %d: accept failed with errno %d on an open listening socket in blocking mode", a, r.err);
      break;
    }
    g_accepted((int)r.k.last_off);
    is_socket[r.ret] = 1;
    nonblock_mode[r.ret] = 0;
    unsigned char b[4];
    io_res_t rr = io_rw(SH_RECV, (int)r.ret, b, 1, 0, 1); /* one byte from the client, then answer */
    if (rr.ret == 1) {
      b[0] ^= 0xff;
      io_rw(SH_SEND, (int)r.ret, b, 1, 0, 1);
    }
    close((int)r.ret);
  }
  return NULL;
}
static NS int g_acceptors_blocked(void) {
  for (int a = 0; a < nacceptors; a++)
    if (!(sim_fiber_lib_state(acceptor_fiber[a]) == FIBER_STATE_WAITING && sim_fiber_is_saved(acceptor_fiber[a]))) return 0;
  return 1;
}
static void* connector(void* p) {
  const int i = (int)(intptr_t)p;
  int fd = socket(AF_INET, SOCK_STREAM, 0);
  if (fd < 0) sim_violation("C08-setup", "socket failed errno %d", errno);
  is_socket[fd] = 1;
  nonblock_mode[fd] = 0;
  struct sockaddr_in sa;
  memset(&sa, 0, sizeof sa);
  sa.sin_family = AF_INET;
  sa.sin_port = htons(7000);
  io_res_t r;
  memset(&r, 0, sizeof r);
  int sw0 = g_sw();
  g_begin();
  set_errno(0);
  r.ret = connect(fd, (struct sockaddr*)&sa, sizeof sa);
  r.err = get_errno();
  g_check(SH_CONNECT, fd, 1, 0, &r, sw0, 1);
  if (r.ret == -1 && r.err == EINPROGRESS) sim_violation("C08-eagain-in-blocking-mode", "connect on a blocking socket returned EINPROGRESS");
  if (r.ret == 0) {
    g_connected();
    unsigned char b[2] = {(unsigned char)(0x30 + i), 0};
    io_res_t w = io_rw(SH_SEND, fd, b, 1, 0, 1);
    if (w.ret == 1) {
      io_res_t rr = io_rw(SH_RECV, fd, b + 1, 1, 0, 1);
      if (rr.ret == 1 && b[1] != (unsigned char)(b[0] ^ 0xff)) sim_violation("C08-data-corrupt", "connection %d: echoed byte %#x for %#x", i, b[1], b[0]);
    }
  } else if (r.err != ECONNREFUSED)
    sim_violation("C08-connect-failed", "connect failed with errno %d (the kernel refused this connection: ECONNREFUSED expected)", r.err);
  else
    sim_probe("connect_refused", 1);
  close(fd);
  return NULL;
}
static void run_accept(sim_cfg_t c) {
  nconn = wl_int(1, MAXCONN);
  nacceptors = wl_int(1, 2);
  sim_describe("threads=%d accept connections=%d acceptors=%d preempt=1/%d faults=%#x", c.threads, nconn, nacceptors, c.preempt_inv, c.faults);
  lfd = socket(AF_INET, SOCK_STREAM, 0);
  if (lfd < 0 || simk_listen(lfd, 7000)) sim_violation("C08-setup", "listen failed");
  is_socket[lfd] = 1;
  fiber_t* cf[MAXCONN];
  int acc_first = wl_pct(60);
  if (acc_first)
    for (int a = 0; a < nacceptors; a++) acceptor_fiber[a] = fiber_create(STK, acceptor, (void*)(intptr_t)a);
  for (int i = 0; i < nconn; i++) cf[i] = fiber_create(STK, connector, (void*)(intptr_t)i);
  if (!acc_first)
    for (int a = 0; a < nacceptors; a++) acceptor_fiber[a] = fiber_create(STK, acceptor, (void*)(intptr_t)a);
  for (int i = 0; i < nconn; i++) fiber_join(cf[i], NULL);
  /* every connection that was established has been served (the client waited for the echo); the acceptors
   * are now blocked in accept: closing the listening socket must release them */
  while (!g_acceptors_blocked()) fiber_sleep(0, 1000);
  if (accepted_total != conn_ok_total) sim_violation("C08-accept-lost", "%d connections established, %d accepted", conn_ok_total, accepted_total);
  listener_closed = 1;
  closing[lfd] = 1;
  close(lfd);
  closing[lfd] = 0;
  for (int a = 0; a < nacceptors; a++) fiber_join(acceptor_fiber[a], NULL);
}

/* =============== scenario MODES =============== */
static int mfd_r, mfd_w, how_nb, how_back;
static volatile int phase;
static void set_nonblock(int fd, int how, int on) {
  int r;
  if (how == 0) {
    r = fcntl(fd, F_SETFL, on ? O_NONBLOCK : 0);
  } else if (how == 1) {
    int v = on;
    r = ioctl(fd, FIONBIO, &v);
  } else { /* the customary read-modify-write of the status flags */
    int fl = fcntl(fd, F_GETFL, 0);
    if (fl < 0) sim_violation("C08-fcntl-failed", "fcntl(F_GETFL) failed with errno %d on an open descriptor", errno);
    r = fcntl(fd, F_SETFL, on ? (fl | O_NONBLOCK) : (fl & ~O_NONBLOCK));
  }
  if (r != 0) sim_violation("C08-fcntl-failed", "switching fd %d to %s mode failed with errno %d", fd, on ? "non-blocking" : "blocking", errno);
  nonblock_mode[fd] = on;
  /* the status flags read back must show the mode just selected, as with the plain call */
  int now = fcntl(fd, F_GETFL, 0);
  if (now < 0 || !!(now & O_NONBLOCK) != on)
    sim_violation("C08-getfl-wrong-mode", "after switching fd %d to %s mode fcntl(F_GETFL) returned %#x", fd, on ? "non-blocking" : "blocking", now);
}
static void* modes_reader(void* p) {
  (void)p;
  unsigned char b[8];
  int sock = is_socket[mfd_r];
  /* 1. non-blocking: an empty descriptor answers EAGAIN at once */
  if (how_nb < 3 || how_nb == 4) {
    if (how_nb < 3) set_nonblock(mfd_r, how_nb, 1); /* 4: the socket was created with SOCK_NONBLOCK */
    io_res_t r = io_rw(sock ? SH_RECV : SH_READ, mfd_r, b, 4, 0, 1);
    if (!(r.ret == -1 && (r.err == EAGAIN || r.err == EWOULDBLOCK))) sim_violation("C08-nonblocking-wrong-result", "read of an empty non-blocking descriptor returned %ld errno %d", r.ret, r.err);
  } else {
    io_res_t r = io_rw(SH_RECV, mfd_r, b, 4, MSG_DONTWAIT, 1);
    if (!(r.ret == -1 && (r.err == EAGAIN || r.err == EWOULDBLOCK))) sim_violation("C08-nonblocking-wrong-result", "recv(MSG_DONTWAIT) on an empty socket returned %ld errno %d", r.ret, r.err);
  }
  /* 2. back to blocking: the next read waits for the writer */
  if (how_nb < 3 || how_nb == 4) {
    sim_scenario(how_back == 0 ? "modes:back-to-blocking:fcntl-setfl" : how_back == 1 ? "modes:back-to-blocking:fionbio" : "modes:back-to-blocking:getfl-setfl");
    set_nonblock(mfd_r, how_back, 0);
  }
  phase = 1;
  io_res_t r = io_rw(sock ? SH_RECV : SH_READ, mfd_r, b, 4, 0, 1);
  if (r.ret <= 0) sim_violation("C08-read-failed", "blocking read after the mode change returned %ld errno %d", r.ret, r.err);
  sim_scenario("");
  return NULL;
}
static void* modes_writer(void* p) {
  (void)p;
  while (!phase) RS0(fiber_yield);
  for (int i = 0; i < 3; i++) RS0(fiber_yield);
  unsigned char b[2] = {1, 2};
  /* the writing end may be in non-blocking mode too (SOCK_NONBLOCK at creation): EAGAIN is then a legal answer */
  for (int k = 0; k < 1000; k++) {
    io_res_t r = io_rw(SH_WRITE, mfd_w, b, 2, 0, 1);
    if (r.ret > 0 || !nonblock_mode[mfd_w]) break;
    RS0(fiber_yield);
  }
  return NULL;
}
static void run_modes(sim_cfg_t c) {
  int sock = wl_pct(50);
  how_nb = wl_pick(sock ? 5 : 3);
  how_back = wl_pick(3);
  static const char* const hn[] = {"fcntl(F_SETFL,O_NONBLOCK)", "ioctl(FIONBIO)", "F_GETFL|O_NONBLOCK", "MSG_DONTWAIT", "socketpair(SOCK_STREAM|SOCK_NONBLOCK)"};
  sim_describe("threads=%d modes %s nonblock via %s, back via %d preempt=1/%d", c.threads, sock ? "socketpair" : "pipe", hn[how_nb], how_back, c.preempt_inv);
  sim_scenario(how_nb == 0 ? "modes:nonblock:fcntl-setfl" : how_nb == 1 ? "modes:nonblock:fionbio" : how_nb == 2 ? "modes:nonblock:getfl-setfl" : how_nb == 3 ? "modes:nonblock:msg-dontwait" : "modes:nonblock:sock-nonblock-at-creation");
  int fds[2];
  if (sock ? socketpair(AF_UNIX, SOCK_STREAM | (how_nb == 4 ? SOCK_NONBLOCK : 0), 0, fds) : pipe(fds)) sim_violation("C08-setup", "setup failed");
  mfd_r = fds[0];
  mfd_w = fds[1];
  is_socket[mfd_r] = is_socket[mfd_w] = sock;
  if (how_nb == 4) nonblock_mode[mfd_r] = nonblock_mode[mfd_w] = 1;
  fiber_t* a = fiber_create(STK, modes_reader, NULL);
  fiber_t* b = fiber_create(STK, modes_writer, NULL);
  fiber_join(a, NULL);
  fiber_join(b, NULL);
  close(mfd_r);
  close(mfd_w);
}

/* =============== scenario CLOSE =============== */
static int cfd_r, cfd_w, nblocked, blocked_in;
static fiber_t* close_readers[4];
static NS void g_blocked_in(void) { blocked_in++; }
/* really blocked: registered as waiter (library state WAITING) and switched out.  A fiber that only starts to
 * wait while close() is already running is not covered by the property (a plain read may block for ever too) */
static NS int g_all_blocked(void) {
  if (blocked_in != nblocked) return 0;
  for (int i = 0; i < nblocked; i++)
    if (!(sim_fiber_lib_state(close_readers[i]) == FIBER_STATE_WAITING && sim_fiber_is_saved(close_readers[i]))) return 0;
  return 1;
}
static void* close_reader(void* p) {
  (void)p;
  unsigned char b[4];
  g_blocked_in();
  io_res_t r = io_rw(is_socket[cfd_r] ? SH_RECV : SH_READ, cfd_r, b, 4, 0, 1);
  /* any result a plain call may give is fine (error, end of file, data): the point is that it returned */
  (void)r;
  return NULL;
}
static void* closer(void* p) {
  (void)p;
  while (!g_all_blocked()) RS0(fiber_yield);
  for (int i = 0; i < 2; i++) RS0(fiber_yield);
  closing[cfd_r] = 1;
  close(cfd_r);
  return NULL;
}
static void run_close(sim_cfg_t c) {
  int sock = wl_pct(50);
  nblocked = wl_int(1, 3);
  sim_describe("threads=%d close-while-blocked %s blocked_readers=%d preempt=1/%d", c.threads, sock ? "socketpair" : "pipe", nblocked, c.preempt_inv);
  int fds[2];
  if (sock ? socketpair(AF_UNIX, SOCK_STREAM, 0, fds) : pipe(fds)) sim_violation("C08-setup", "setup failed");
  cfd_r = fds[0];
  cfd_w = fds[1];
  is_socket[cfd_r] = is_socket[cfd_w] = sock;
  fiber_t* f[5];
  int n = 0;
  for (int i = 0; i < nblocked; i++) close_readers[i] = f[n++] = fiber_create(STK, close_reader, NULL);
  f[n++] = fiber_create(STK, closer, NULL);
  for (int i = 0; i < n; i++) fiber_join(f[i], NULL);
  close(cfd_w);
}

/* =============== scenario PEER_CLOSE: the reader goes away while writers are blocked on a full buffer =============== */
static int pc_r, pc_w, pc_nw, pc_read_first;
static void* pc_writer(void* p) {
  const int w = (int)(intptr_t)p;
  unsigned char buf[64];
  memset(buf, 0x40 + w, sizeof buf);
  for (int i = 0; i < 200; i++) { /* far more than the buffer holds: ends with an error once the peer is gone */
    io_res_t r = io_rw(is_socket[pc_w] ? SH_SEND : SH_WRITE, pc_w, buf, sizeof buf, 0, 1);
    if (r.ret < 0) {
      if (r.err != EPIPE && r.err != ECONNRESET) sim_violation("C08-write-failed", "writer %d: write after the peer closed failed with errno %d (EPIPE/ECONNRESET expected)", w, r.err);
      return NULL;
    }
  }
  sim_violation("C08-write-after-peer-close", "writer %d: 200 writes of 64 bytes succeeded although the reader closed after %d bytes and the buffer holds %d", w, pc_read_first, cap);
  return NULL;
}
static void* pc_reader(void* p) {
  (void)p;
  unsigned char buf[64];
  int got = 0;
  while (got < pc_read_first) {
    io_res_t r = io_rw(is_socket[pc_r] ? SH_RECV : SH_READ, pc_r, buf, (size_t)(pc_read_first - got > 64 ? 64 : pc_read_first - got), 0, 1);
    if (r.ret <= 0) break;
    got += (int)r.ret;
  }
  for (int i = 0; i < 3; i++) RS0(fiber_yield); /* let the writers fill the buffer and block */
  close(pc_r);
  return NULL;
}
static void run_peer_close(sim_cfg_t c) {
  int sock = wl_pct(50);
  pc_nw = wl_int(1, 3);
  pc_read_first = wl_int(0, 3 * cap > 200 ? 200 : 3 * cap);
  sim_describe("threads=%d peer-close %s writers=%d reader reads %d bytes then closes, capacity=%d preempt=1/%d faults=%#x", c.threads, sock ? "socketpair" : "pipe", pc_nw, pc_read_first, cap, c.preempt_inv, c.faults);
  int fds[2];
  if (sock ? socketpair(AF_UNIX, SOCK_STREAM, 0, fds) : pipe(fds)) sim_violation("C08-setup", "setup failed");
  pc_r = fds[0];
  pc_w = fds[1];
  is_socket[pc_r] = is_socket[pc_w] = sock;
  fiber_t* f[4];
  int n = 0;
  for (int w = 0; w < pc_nw; w++) f[n++] = fiber_create(STK, pc_writer, (void*)(intptr_t)w);
  f[n++] = fiber_create(STK, pc_reader, NULL);
  for (int i = 0; i < n; i++) fiber_join(f[i], NULL);
  close(pc_w);
}

/* =============== scenario DUPLEX: readers and writers blocked on the SAME descriptor, both directions =============== */
static int dx_fd[2], dx_bytes[2], dx_delay[2], dx_shim[2][2][8];
static unsigned char dx_seen[2][400];
static int dx_got[2];
static void* dx_writer(void* p) { /* writes dx_bytes[e] bytes into end e */
  const int e = (int)(intptr_t)p;
  unsigned char buf[48];
  int sent = 0;
  for (int k = 0; k < dx_delay[e]; k++) RS0(fiber_yield);
  while (sent < dx_bytes[e]) {
    int n = dx_bytes[e] - sent > 48 ? 48 : dx_bytes[e] - sent;
    for (int i = 0; i < n; i++) buf[i] = (unsigned char)((sent + i) * 7 + e);
    static int wk[2];
    io_res_t r = io_rw(SH_WRITE + dx_shim[e][1][wk[e]++ & 7], dx_fd[e], buf, (size_t)n, 0, 1);
    if (r.ret <= 0) sim_violation("C08-write-failed", "duplex: write on end %d failed with %ld errno %d", e, r.ret, r.err);
    sent += (int)r.ret;
  }
  return NULL;
}
static void* dx_reader(void* p) { /* reads what the other end's writer sends, from end e */
  const int e = (int)(intptr_t)p;
  const int want = dx_bytes[1 - e];
  unsigned char buf[64];
  for (int k = 0; k < dx_delay[1 - e]; k++) RS0(fiber_yield);
  while (dx_got[e] < want) {
    static int rk[2];
    io_res_t r = io_rw(SH_READ + dx_shim[e][0][rk[e]++ & 7], dx_fd[e], buf, sizeof buf, 0, 1);
    if (r.ret <= 0) sim_violation("C08-read-failed", "duplex: read on end %d returned %ld errno %d before all %d bytes arrived", e, r.ret, r.err, want);
    for (long i = 0; i < r.ret; i++) {
      unsigned char exp = (unsigned char)((dx_got[e] + i) * 7 + (1 - e));
      if (buf[i] != exp) sim_violation("C08-data-out-of-order", "duplex: end %d byte %ld is %#x, expected %#x", e, dx_got[e] + i, buf[i], exp);
    }
    dx_got[e] += (int)r.ret;
  }
  return NULL;
}
static void run_duplex(sim_cfg_t c) {
  for (int e = 0; e < 2; e++) {
    dx_bytes[e] = wl_int(1, 8 * cap > 300 ? 300 : 8 * cap);
    dx_delay[e] = wl_int(0, 6);
    for (int d = 0; d < 2; d++)
      for (int k = 0; k < 8; k++) dx_shim[e][d][k] = wl_pick(5);
  }
  sim_describe("threads=%d duplex socketpair: %d bytes one way, %d the other, capacity=%d, delays %d/%d preempt=1/%d faults=%#x", c.threads, dx_bytes[0], dx_bytes[1], cap, dx_delay[0], dx_delay[1],
               c.preempt_inv, c.faults);
  if (socketpair(AF_UNIX, SOCK_STREAM, 0, dx_fd)) sim_violation("C08-setup", "socketpair failed");
  is_socket[dx_fd[0]] = is_socket[dx_fd[1]] = 1;
  fiber_t* f[4];
  int order = wl_pick(4);
  /* on each end one fiber reads while another one writes: two waiters on one descriptor, different directions */
  void* (*fn[4])(void*) = {dx_reader, dx_writer, dx_reader, dx_writer};
  int arg[4] = {0, 0, 1, 1};
  for (int i = 0; i < 4; i++) {
    int j = (i + order) % 4;
    f[i] = fiber_create(STK, fn[j], (void*)(intptr_t)arg[j]);
  }
  for (int i = 0; i < 4; i++) fiber_join(f[i], NULL);
  close(dx_fd[0]);
  close(dx_fd[1]);
}

/* =============== scenario INVALID =============== */
static void run_invalid(sim_cfg_t c) {
  static const char* const cls[] = {"negative", "closed", "never-opened", "eq-max-fd", "above-max-fd", "int-max", "int-min"};
  int shim = wl_pick(SH_N);
  int k = wl_pick(7);
  int fd;
  int fds[2];
  if (pipe(fds)) sim_violation("C08-setup", "pipe failed");
  switch (k) {
    case 0: fd = -1 - wl_pick(3); break;
    case 1: fd = fds[0]; close(fds[0]); break;
    case 2: fd = 40 + wl_pick(20); break;
    case 3: fd = 64; break;
    case 4: fd = 65 + wl_pick(2000); break;
    case 5: fd = INT_MAX; break;
    default: fd = INT_MIN; break;
  }
  char tag[64];
  snprintf(tag, sizeof tag, "invalid-fd:%s:%s", shn[shim], cls[k]);
  sim_scenario(tag);
  sim_describe("threads=%d invalid descriptor %d (%s) passed to %s", c.threads, fd, cls[k], shn[shim]);
  sim_nontrivial();
  unsigned char buf[8] = {0};
  long ret;
  int err;
  set_errno(0);
  if (shim <= SH_SENDMSG) {
    io_res_t r = io_rw(shim, fd, buf, 4, 0, 0);
    ret = r.ret;
    err = r.err;
  } else if (shim == SH_ACCEPT) {
    ret = accept(fd, NULL, NULL);
    err = get_errno();
  } else if (shim == SH_CONNECT) {
    struct sockaddr_in sa;
    memset(&sa, 0, sizeof sa);
    sa.sin_family = AF_INET;
    sa.sin_port = htons(7000);
    ret = connect(fd, (struct sockaddr*)&sa, sizeof sa);
    err = get_errno();
  } else if (shim == SH_CLOSE) {
    ret = close(fd);
    err = get_errno();
  } else if (shim == SH_FCNTL) {
    int which = wl_pick(3);
    ret = which == 0 ? fcntl(fd, F_SETFL, O_NONBLOCK) : which == 1 ? fcntl(fd, F_GETFL, 0) : fcntl(fd, F_SETFL, 0);
    err = get_errno();
  } else {
    int v = wl_pick(2);
    ret = ioctl(fd, FIONBIO, &v);
    err = get_errno();
  }
  if (ret != -1) sim_violation("C08-invalid-fd-accepted", "%s on invalid descriptor %d (%s) returned %ld instead of failing", shn[shim], fd, cls[k], ret);
  if (err == 0) sim_violation("C08-invalid-fd-no-errno", "%s on invalid descriptor %d failed without setting errno", shn[shim], fd);
  sim_scenario("");
  close(fds[1]);
  if (k != 1) close(fds[0]);
}

void h_run(void) {
  unsigned allowed = FBIT(F_STALL) | FBIT(F_SHORT_IO) | FBIT(F_SPURIOUS) | FBIT(F_DELAY_REPORT) | FBIT(F_EINTR) | FBIT(F_EV_FEWER) | FBIT(F_CONNECT_SLOW) | FBIT(F_CONNECT_FAIL);
  sim_cfg_t c = sim_config(1, 3, 40, allowed);
  nthreads = c.threads;
  scenario = wl_pick(SC_NKINDS + 2); /* STREAM gets three shares */
  if (scenario >= SC_NKINDS) scenario = SC_STREAM;
  static const int caps[] = {1, 7, 16, 64, 4096};
  cap = caps[wl_pick(4)];
  simk_set_capacity(cap);
  sim_set_quiet_ns(60 * 5000000ull);
  sim_hook_context_switch = on_switch;
  /* the soft descriptor limit at start-up may be lower than the hard one (the process raises it later), and the
   * low descriptor numbers may be taken: the scenario's descriptors then sit above the initial soft limit */
  const int soft = wl_pct(35) ? wl_int(8, 24) : 64;
  const int taken = soft < 64 ? wl_int(0, 8) : 0;
  simk_set_soft_fd_limit(soft);
  sim_fiber_mode();
  fiber_manager_init(c.threads);
  simk_set_soft_fd_limit(64);
  for (int k = 0; k < taken; k++) {
    int dummy[2];
    if (pipe(dummy)) sim_violation("C08-setup", "pipe");
  }
  switch (scenario) {
    case SC_STREAM: run_stream(c); break;
    case SC_ACCEPT: run_accept(c); break;
    case SC_MODES: run_modes(c); break;
    case SC_CLOSE: run_close(c); break;
    case SC_PEER_CLOSE: run_peer_close(c); break;
    case SC_DUPLEX: run_duplex(c); break;
    default: run_invalid(c);
  }
  h_fiber_end();
}
