# fibersim build: libfiber from /repo's working tree, instrumented with the TSan
# compiler ABI (no libtsan), linked with our own runtime.
V := $(patsubst %/,%,$(dir $(abspath $(lastword $(MAKEFILE_LIST)))))
REPO ?= /repo
B ?= $(V)/build
CC = gcc
ICF = -O2 -g -DNDEBUG -std=gnu11 -fsanitize=thread --param=tsan-instrument-func-entry-exit=0 \
      -DFIBER_FAST_SWITCHING -DFIBER_STACK_MALLOC -DLIBFIBER_VERIF -I$(REPO)/include -I$(V)/sim -Wall -Wno-unused-function -Wno-unused-variable
RCF = -O2 -g -std=gnu11 -I$(V)/sim -Wall -Wno-unused-result
LIBSRCS = fiber_context fiber_manager fiber_mutex fiber_semaphore fiber_spinlock fiber_cond fiber fiber_barrier \
          fiber_io fiber_rwlock hazard_pointer work_stealing_deque work_queue fiber_scheduler_wsd fiber_event_native
LIBOBJS = $(patsubst %,$(B)/lib/%.o,$(LIBSRCS))
RTOBJS = $(B)/rt/sim.o $(B)/rt/kernel.o $(B)/rt/lin.o $(B)/rt/glue.o
WRAP = -Wl,--wrap=pthread_create,--wrap=pthread_join,--wrap=dlsym,--wrap=epoll_create,--wrap=epoll_create1,--wrap=epoll_ctl,--wrap=epoll_wait,--wrap=timerfd_create,--wrap=timerfd_settime,--wrap=getrlimit,--wrap=setsockopt,--wrap=getsockopt,--wrap=fiber_scheduler_schedule,--wrap=fiber_scheduler_next,--wrap=wsd_work_stealing_deque_push_bottom,--wrap=wsd_work_stealing_deque_pop_bottom,--wrap=wsd_work_stealing_deque_steal,--wrap=hazard_pointer_scan,--wrap=fiber_manager_get,--wrap=fiber_spinlock_lock,--wrap=fiber_spinlock_trylock,--wrap=fiber_spinlock_unlock
HARNESSES = $(patsubst $(V)/harness/%.c,%,$(wildcard $(V)/harness/c*.c))
BINS = $(patsubst %,$(B)/h_%,$(HARNESSES))

all: $(BINS) $(B)/h_c19_ctx_mmap $(B)/h_c19_ctx_uctx $(B)/h_c19_ctx_split $(B)/h_c01_mixed_mmap $(B)/h_c01_mixed_uctx

$(B)/lib/%.o: $(REPO)/src/%.c
	@mkdir -p $(B)/lib
	$(CC) $(ICF) -w -MMD -MP -c $< -o $@
$(B)/rt/glue.o: $(V)/sim/glue.c
	@mkdir -p $(B)/rt
	$(CC) $(ICF) -MMD -MP -c $< -o $@
$(B)/rt/%.o: $(V)/sim/%.c $(V)/sim/sim.h $(V)/sim/simint.h
	@mkdir -p $(B)/rt
	$(CC) $(RCF) -c $< -o $@
$(B)/hobj/%.o: $(V)/harness/%.c $(V)/sim/sim.h $(V)/harness/common.h
	@mkdir -p $(B)/hobj
	$(CC) $(ICF) -MMD -MP -c $< -o $@
$(B)/hobj/regshim.o: $(V)/harness/regshim.S
	@mkdir -p $(B)/hobj
	$(CC) -c $< -o $@
$(B)/h_%: $(B)/hobj/%.o $(LIBOBJS) $(RTOBJS) $(B)/hobj/regshim.o
	$(CC) -o $@ $^ $(WRAP) -lpthread -ldl

# C19 variants: the same harness against other stack strategies / switching back-ends
LIBOBJS_NOCTX = $(filter-out $(B)/lib/fiber_context.o,$(LIBOBJS))
ICF_MMAP = $(subst -DFIBER_STACK_MALLOC,-DFIBER_STACK_MMAP,$(ICF))
ICF_UCTX = $(subst -DFIBER_FAST_SWITCHING,,$(ICF))
ICF_SPLIT = $(subst -DFIBER_STACK_MALLOC,-DFIBER_STACK_SPLIT -fsplit-stack,$(ICF))
$(B)/lib/fiber_context_split.o: $(REPO)/src/fiber_context.c
	@mkdir -p $(B)/lib
	$(CC) $(ICF_SPLIT) -w -MMD -MP -c $< -o $@
$(B)/hobj/c19_ctx_split.o: $(V)/harness/c19_ctx.c $(V)/sim/sim.h $(V)/harness/common.h
	@mkdir -p $(B)/hobj
	$(CC) $(ICF_SPLIT) -DC19_VARIANT=3 -MMD -MP -c $< -o $@
$(B)/h_c19_ctx_split: $(B)/hobj/c19_ctx_split.o $(B)/lib/fiber_context_split.o $(LIBOBJS_NOCTX) $(RTOBJS) $(B)/hobj/regshim.o
	$(CC) -fsplit-stack -o $@ $^ $(WRAP),--wrap=syscall -lpthread -ldl
# the mixed whole-runtime programs against the other stack strategy / switching back-end
$(B)/hobj/c01_mixed_mmap.o: $(V)/harness/c01_mixed.c $(V)/sim/sim.h $(V)/harness/common.h
	@mkdir -p $(B)/hobj
	$(CC) $(ICF) -DH_VARIANT_NAME='"c01_mixed_mmap"' -MMD -MP -c $< -o $@
$(B)/hobj/c01_mixed_uctx.o: $(V)/harness/c01_mixed.c $(V)/sim/sim.h $(V)/harness/common.h
	@mkdir -p $(B)/hobj
	$(CC) $(ICF) -DH_VARIANT_NAME='"c01_mixed_uctx"' -MMD -MP -c $< -o $@
$(B)/h_c01_mixed_mmap: $(B)/hobj/c01_mixed_mmap.o $(B)/lib/fiber_context_mmap.o $(LIBOBJS_NOCTX) $(RTOBJS) $(B)/hobj/regshim.o
	$(CC) -o $@ $^ $(WRAP) -lpthread -ldl
$(B)/h_c01_mixed_uctx: $(B)/hobj/c01_mixed_uctx.o $(B)/lib/fiber_context_uctx.o $(LIBOBJS_NOCTX) $(RTOBJS) $(B)/hobj/regshim.o
	$(CC) -o $@ $^ $(WRAP),--wrap=swapcontext -lpthread -ldl
$(B)/lib/fiber_context_mmap.o: $(REPO)/src/fiber_context.c
	@mkdir -p $(B)/lib
	$(CC) $(ICF_MMAP) -w -MMD -MP -c $< -o $@
$(B)/lib/fiber_context_uctx.o: $(REPO)/src/fiber_context.c
	@mkdir -p $(B)/lib
	$(CC) $(ICF_UCTX) -w -MMD -MP -c $< -o $@
$(B)/hobj/c19_ctx_mmap.o: $(V)/harness/c19_ctx.c $(V)/sim/sim.h $(V)/harness/common.h
	@mkdir -p $(B)/hobj
	$(CC) $(ICF_MMAP) -DC19_VARIANT=1 -MMD -MP -c $< -o $@
$(B)/hobj/c19_ctx_uctx.o: $(V)/harness/c19_ctx.c $(V)/sim/sim.h $(V)/harness/common.h
	@mkdir -p $(B)/hobj
	$(CC) $(ICF_UCTX) -DC19_VARIANT=2 -MMD -MP -c $< -o $@
$(B)/h_c19_ctx_mmap: $(B)/hobj/c19_ctx_mmap.o $(B)/lib/fiber_context_mmap.o $(LIBOBJS_NOCTX) $(RTOBJS) $(B)/hobj/regshim.o
	$(CC) -o $@ $^ $(WRAP),--wrap=mmap,--wrap=munmap -lpthread -ldl
$(B)/h_c19_ctx_uctx: $(B)/hobj/c19_ctx_uctx.o $(B)/lib/fiber_context_uctx.o $(LIBOBJS_NOCTX) $(RTOBJS) $(B)/hobj/regshim.o
	$(CC) -o $@ $^ $(WRAP) -lpthread -ldl

-include $(wildcard $(B)/lib/*.d) $(wildcard $(B)/hobj/*.d) $(wildcard $(B)/rt/*.d)
.PRECIOUS: $(B)/hobj/%.o $(B)/lib/%.o $(B)/rt/%.o
clean:
	rm -rf $(B)
