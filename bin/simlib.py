"""shared pieces of the fibersim driver: property table, build, replay files, minimiser, known findings"""
import fcntl, json, os, re, subprocess, tempfile, time

VERIF = os.path.dirname(os.path.dirname(os.path.abspath(__file__)))
BUILD = os.environ.get('FIBERSIM_BUILD', os.path.join(VERIF, 'build'))
REPO = os.environ.get('FIBERSIM_REPO', '/repo')


def hbin(h):
    return os.path.join(BUILD, 'h_' + h)


# property -> harnesses (name, share of the run budget)
PROPS = {
    'C01': {'harnesses': [('c01_mixed', 1.0)]},
    'C02': {'harnesses': [('c02_deque', 0.4), ('c01_mixed', 0.6)]},
    'C03': {'harnesses': [('c03_mutex', 1.0)]},
    'C04': {'harnesses': [('c04_join', 1.0)]},
    'C05': {'harnesses': [('c05_cond', 1.0)]},
    'C06': {'harnesses': [('c06_sem', 1.0)]},
    'C07': {'harnesses': [('c07_rwlock', 1.0)]},
    'C08': {'harnesses': [('c08_io', 1.0)]},
    'C09': {'harnesses': [('c09_sleep', 1.0)]},
    'C10': {'harnesses': [('c10_yield', 1.0)]},
    'C11': {'harnesses': [('c11_chan', 0.8), ('c20_msignal', 0.2)]},
    'C12': {'harnesses': [('c12_barrier', 1.0)]},
    'C13': {'harnesses': [('c13_mpmc', 1.0)]},
    'C14': {'harnesses': [('c14_hazard', 0.65), ('c13_mpmc', 0.35)]},
    'C15': {'harnesses': [('c15_queues', 1.0)]},
    'C16': {'harnesses': [('c16_ring', 1.0)]},
    'C17': {'harnesses': [('c17_workq', 1.0)]},
    'C18': {'harnesses': [('c18_spin', 1.0)]},
    'C19': {'harnesses': [('c19_ctx', 0.26), ('c19_ctx_mmap', 0.1), ('c19_ctx_uctx', 0.1), ('c19_ctx_split', 0.14), ('c01_mixed', 0.26), ('c01_mixed_mmap', 0.07), ('c01_mixed_uctx', 0.07)]},
    'C20': {'harnesses': [('c20_dwcas', 0.6), ('c20_msignal', 0.4)]},
}

RULES = {
    'C01': 'Seeded programs mixing yield/mutex/cond/semaphore/rwlock/barrier/channel/join/sleep/pipe ops on 1-4 kernel threads; ghost fiber state machine checked at every context switch. Non-trivial: >=2 kernel threads and at least one fiber migrated between threads or a wake-up raced with a suspension.',
    'C02': 'Deque in isolation (1 owner + 1-3 thieves, lengths 0-3, across the 256-slot growth boundary, and starting from arrays of 1-8 slots so that pushes grow the array under the thieves; x86-TSO store buffering in 40 % of the runs) and whole-runtime programs with pending/slot ghosts. Non-trivial: at least one steal attempt overlapped an owner operation (deque) or a fiber was stolen (runtime).',
    'C03': 'Fibers lock/trylock/unlock 1-2 mutexes with yields or sleeps inside the critical section; 15 % of the runs are the deferred-unlock scenario (cond_wait hands the unlock to the next fiber or the maintenance fiber, a contender is descheduled between announcing and queueing, pollers yield or spawn/join). Non-trivial: >=2 blocking lock operations in the program.',
    'C04': 'Owner/target fiber pairs running join, tryjoin*, detach in both arrival orders, second joiners, racing tryjoins, detach-then-join and join-then-detached-by-a-third-fiber. Non-trivial: >=2 kernel threads or a tryjoin that had to be repeated.',
    'C05': 'Token and strict programs on one mutex + one condition variable. Non-trivial: at least one waiter actually blocked in fiber_cond_wait.',
    'C06': 'wait/trywait/post scripts, initial value 0-3. Non-trivial: at least one wait blocked.',
    'C07': 'Reader/writer scripts with try variants. Non-trivial: program has >=1 writer and >=2 fibers.',
    'C08': 'Pipe/socketpair/listener programs over the simulated kernel with all shims in rotation and kernel faults. Non-trivial: at least one shim call suspended its fiber.',
    'C09': 'Sleeps of 0..3s through fiber_sleep/usleep/nanosleep/sleep mixed with busy fibers, stalls and coalesced timer expirations; 6 % of the runs check that sleeps of 71 minutes to 46 days (around multiples of 2^32 us) have not returned after 100-600 ms. Non-trivial: >=2 sleepers or a busy/stalled kernel thread.',
    'C10': 'Setter/poller/yielder fibers (2-6, or a crowd of up to 800), optionally fibers that become ready through a mutex hand-off; 15 % of the runs are the deferred-unlock scenario shared with C03. Non-trivial: >=1 poller and >=3 fibers.',
    'C11': 'Bounded, unbounded, single-producer and multi channels and raw signals; a fifth of the budget goes to the multi-waiter signal harness. Non-trivial: a receiver (or sender) blocked at least once.',
    'C12': 'count 1-5 fibers, 1-6 rounds back to back on one barrier in dirty heap memory, optionally destroyed and initialised again for another count, 1-4 kernel threads. Non-trivial: count>=2 and (>=2 kernel threads or >=2 rounds).',
    'C13': 'Threads push/trypop with node reuse through the reclaim callback; history checked for linearizability. Non-trivial: >=2 threads with overlapping operations.',
    'C14': 'publish/validate/use/release/retire protocol on shared cells with 1-4 records x 1-3 slots (non-trivial: a retire happened while another record held a validated protection); and the MPMC FIFO built on hazard pointers, with reclaimed nodes handed back to the allocator in a third of the runs so that any dereference of a reclaimed node is a memory violation (non-trivial: >=2 threads with overlapping operations).',
    'C15': 'MPSC, SPSC and relaxed-MPSC queues against FIFO models, node recycling, optionally one NULL payload, x86-TSO store buffering in 40 % of the runs. Non-trivial: a pop overlapped a push.',
    'C16': 'Ring buffer capacity 2/4/8 with pre-advanced indices (0, 2^32, 2^64 wrap, random); try operations, or producer threads with blocking push and consumer threads with blocking pop. Non-trivial: >=2 threads with overlapping operations.',
    'C17': 'Threads push items and drain as worker when told to; in a quarter of the runs the counters are first moved to just below 2^32 under an active worker. Non-trivial: >=2 threads pushed.',
    'C18': 'lock/trylock/unlock with ticket counters next to the 2^32 wrap. Non-trivial: a lock call had to spin.',
    'C19': 'Bare fiber_context_* switch sequences with allocation faults under four builds (assembly switch with malloc, mmap and gcc split stacks - the last switching some frames down in segments added after creation - and the ucontext back-end), plus the register/stack shim on every suspending call of the mixed runtime programs (whole runtime built with malloc stacks, with mmap stacks and with the ucontext back-end). Non-trivial: >=3 contexts or a migrated fiber.',
    'C20': 'LIFO, dist FIFO and flushable stack histories with immediate node reuse; multi-signal wait/raise on the runtime, including a scripted stale-snapshot (ABA) interleaving with the raiser held before its double-word CAS. Non-trivial: a DWCAS failed at least once or a waiter blocked.',
}

COMPONENTS = {
    'real_code': ['all of libfiber src/*.c and include/*.h built from /repo working tree with -fsanitize=thread ABI instrumentation (gcc 12, -O2 -DNDEBUG -DFIBER_FAST_SWITCHING -DFIBER_STACK_MALLOC -DLIBFIBER_VERIF)',
                  'assembly context switch (fiber_context_swap, x86-64)', 'malloc-backed fiber stacks'],
    'stubs': ['Linux epoll / timerfd / pipes / stream sockets / getrlimit / setsockopt / getsockopt (sim/kernel.c)',
              'pthread scheduling: every thread parked on a futex, one baton (sim/sim.c)',
              'malloc/calloc/free: bump arena with red zones, shadow and poison (sim/sim.c)',
              'dlsym(RTLD_NEXT, ...) resolves to the simulated kernel', 'clock: discrete simulated nanoseconds'],
}

ASSUMPTIONS = [
    'interleavings are sequentially consistent at the granularity of instrumented memory accesses; x86-TSO store buffering is explored in the thread-mode data-structure harnesses only (C02 deque, C13-C18, C20), nothing weaker anywhere',
    'fair scheduler: a runnable kernel thread runs within 2000 scheduling points (assumption of all liveness verdicts)',
    'the simulated kernel is a faithful model of the Linux calls libfiber uses (DESIGN.md B.1)',
    'sampling, not enumeration: a clean batch is evidence, not proof',
]


def build():
    os.makedirs(BUILD, exist_ok=True)
    with open(os.path.join(BUILD, '.lock'), 'w') as lk:
        fcntl.flock(lk, fcntl.LOCK_EX)
        p = subprocess.run(['make', '-C', VERIF, '-j16', '-s', 'REPO=' + REPO, 'B=' + BUILD], capture_output=True, text=True)
        if p.returncode != 0:
            return False, (p.stdout + p.stderr)[-4000:]
    return True, ''


# ---------------- replay files ----------------
def write_replay(path, rep):
    with open(path, 'w') as f:
        f.write('fibersim-replay 1\n')
        f.write('harness %s\n' % rep['harness'])
        f.write('property %s\n' % rep.get('property', ''))
        f.write('seed %d\n' % rep['seed'])
        if rep.get('schedseed') is not None:
            f.write('schedseed %d\n' % rep['schedseed'])
        f.write('tier %s\n' % rep.get('tier', 'quick'))
        if rep.get('choices') is not None:
            f.write('choices ' + ' '.join(str(c) for c in rep['choices']) + '\n')
        if rep.get('sched') is not None:
            f.write('sched ' + ' '.join('%d:%d:%d' % tuple(d) for d in rep['sched']) + '\n')
        if rep.get('faults') is not None:
            f.write('faults ' + ' '.join('%d:%d:%d' % tuple(d) for d in rep['faults']) + '\n')
        if rep.get('expect_oracle'):
            f.write('expect oracle %s\n' % rep['expect_oracle'])
        if rep.get('expect_hash'):
            f.write('expect hash %s\n' % rep['expect_hash'])
        if rep.get('describe'):
            f.write('note program: %s\n' % rep['describe'].replace('\n', ' '))
        if rep.get('detail'):
            f.write('note detail: %s\n' % rep['detail'].replace('\n', ' '))


def read_replay(path):
    rep = {}
    for line in open(path):
        line = line.rstrip('\n')
        k, _, v = line.partition(' ')
        if k == 'harness':
            rep['harness'] = v
        elif k == 'property':
            rep['property'] = v
        elif k == 'seed':
            rep['seed'] = int(v)
        elif k == 'schedseed':
            rep['schedseed'] = int(v)
        elif k == 'tier':
            rep['tier'] = v
        elif k == 'choices':
            rep['choices'] = [int(x) for x in v.split()]
        elif k == 'sched':
            rep['sched'] = [tuple(int(y) for y in x.split(':')) for x in v.split()]
        elif k == 'faults':
            rep['faults'] = [tuple(int(y) for y in x.split(':')) for x in v.split()]
        elif k == 'expect':
            kk, _, vv = v.partition(' ')
            rep['expect_' + kk] = vv
    return rep


def result_to_replay(r, hname, tier):
    return {'harness': hname, 'property': r.get('property'), 'seed': r['seed'], 'tier': tier,
            'choices': r.get('choices', []), 'sched': [tuple(x) for x in r.get('sched', [])],
            'faults': [tuple(x) for x in r.get('faultdec', [])], 'expect_oracle': r.get('oracle'), 'expect_hash': r.get('hash'),
            'describe': r.get('describe'), 'detail': r.get('detail')}


def run_replay(hname, path, timeout_ms=20000, trace=False):
    env = dict(os.environ)
    if trace:
        env['SIM_TRACE'] = '1'
    p = subprocess.run([hbin(hname), '--replay', path, '--timeout-ms', str(timeout_ms)], capture_output=True, text=True, env=env)
    for l in p.stdout.splitlines():
        if l.startswith('{'):
            try:
                return json.loads(l)
            except Exception:
                return None
    return None


# ---------------- minimiser ----------------
def minimise(hname, rep, oracle, scen, time_budget=45.0):
    t_end = time.time() + time_budget
    stats = {'runs': 0, 'before': {'choices': len(rep['choices']), 'sched': len(rep['sched']), 'faults': len(rep['faults'])}}
    tmp = tempfile.NamedTemporaryFile(prefix='fibersim-min-', suffix='.replay', delete=False, dir=BUILD)
    tmp.close()

    def attempt(cand):
        stats['runs'] += 1
        write_replay(tmp.name, cand)
        r = run_replay(hname, tmp.name, timeout_ms=8000)
        if r is not None and r.get('verdict') == 'violation' and r.get('oracle') == oracle and r.get('scenario', '') == scen:
            return r
        return None

    def ddmin(key, cur):
        items = list(cur[key])
        n = 2
        while len(items) >= 1 and time.time() < t_end:
            chunk = max(1, len(items) // n)
            removed = False
            i = 0
            while i < len(items) and time.time() < t_end:
                cand_items = items[:i] + items[i + chunk:]
                cand = dict(cur)
                cand[key] = cand_items
                if attempt(cand) is not None:
                    items = cand_items
                    removed = True
                else:
                    i += chunk
            if chunk == 1 and not removed:
                break
            if not removed:
                n = min(len(items), n * 2) if len(items) else 1
            if chunk == 1 and removed:
                continue
        out = dict(cur)
        out[key] = items
        return out

    cur = dict(rep)
    cur = ddmin('sched', cur)
    if cur['faults']:
        cur = ddmin('faults', cur)
    # shrink the program (choice vector); when the recorded schedule no longer fits, search nearby schedules
    def research(choices):
        for s in range(24):
            if time.time() >= t_end:
                return None
            cand = {'harness': cur['harness'], 'property': cur.get('property'), 'seed': cur['seed'], 'schedseed': 7919 * (s + 1) + cur['seed'],
                    'tier': cur.get('tier', 'quick'), 'choices': choices, 'sched': None, 'faults': None}
            r = attempt(cand)
            if r is not None:
                return {'harness': cur['harness'], 'property': cur.get('property'), 'seed': cur['seed'], 'tier': cur.get('tier', 'quick'),
                        'choices': r.get('choices', choices), 'sched': [tuple(x) for x in r.get('sched', [])],
                        'faults': [tuple(x) for x in r.get('faultdec', [])]}
        return None

    changed = True
    passes = 0
    while changed and time.time() < t_end and passes < 3:
        changed = False
        passes += 1
        ch = list(cur['choices'])
        for i in range(len(ch)):
            if time.time() >= t_end:
                break
            if i >= len(cur['choices']):
                break
            v = cur['choices'][i]
            for nv in sorted(set([0, v // 2, v - 1])):
                if nv < 0 or nv >= v:
                    continue
                cand_choices = list(cur['choices'])
                cand_choices[i] = nv
                cand = dict(cur)
                cand['choices'] = cand_choices
                r = attempt(cand)
                if r is not None:
                    cur = cand
                    cur['choices'] = r.get('choices', cand_choices)
                    changed = True
                    break
                found = research(cand_choices)
                if found is not None:
                    cur = found
                    changed = True
                    break
        if changed:
            cur = ddmin('sched', cur)
            if cur['faults']:
                cur = ddmin('faults', cur)
    final = attempt(cur)
    try:
        os.unlink(tmp.name)
    except OSError:
        pass
    if final is None:
        return rep, stats
    cur['expect_oracle'] = oracle
    cur['expect_hash'] = final.get('hash')
    cur['describe'] = final.get('describe')
    cur['detail'] = final.get('detail')
    cur['choices'] = final.get('choices', cur['choices'])
    stats['after'] = {'choices': len(cur['choices']), 'sched': len(cur['sched']), 'faults': len(cur['faults']),
                      'nonzero_choices': sum(1 for c in cur['choices'] if c)}
    return cur, stats


# ---------------- known findings ----------------
def load_known():
    p = os.path.join(VERIF, 'known_findings.json')
    if not os.path.exists(p):
        return []
    return json.load(open(p)).get('findings', [])


def match_known(known, prop, oracle, scen, r):
    for k in known:
        if k.get('status') != 'open':
            continue
        if k.get('property') != prop or k.get('oracle') != oracle:
            continue
        if k.get('scenario') is not None and not re.fullmatch(k['scenario'], scen or ''):
            continue
        if k.get('detail_regex') and not re.search(k['detail_regex'], r.get('detail', '')):
            continue
        return k
    return None


# ---- reach: which instrumented memory-access sites of the library did the runs execute? ----
def reach_sites(binp):
    """[(return address, repo-relative file, function, line)] for every compiler-hook call site whose
    source is in the repository; cached next to the binary."""
    import re
    cache = binp + '.sites.json'
    try:
        if os.path.getmtime(cache) >= os.path.getmtime(binp):
            return [tuple(x) for x in json.load(open(cache))]
    except OSError:
        pass
    repo = os.path.realpath(REPO)
    dis = subprocess.run(['objdump', '-d', '--no-show-raw-insn', binp], capture_output=True, text=True).stdout
    rets = []
    prev_call = False
    for ln in dis.splitlines():
        m = re.match(r'\s*([0-9a-f]+):\s+(\S+)\s*(.*)', ln)
        if not m:
            prev_call = False
            continue
        if prev_call:
            rets.append(int(m.group(1), 16))
        prev_call = m.group(2).startswith('call') and ('<__tsan_' in m.group(3) or '<fiber_verif_dwcas' in m.group(3)) and 'func_e' not in m.group(3)
    out = []
    if rets:
        al = subprocess.run(['addr2line', '-f', '-e', binp] + [hex(r - 1) for r in rets], capture_output=True, text=True).stdout.splitlines()
        for i, r in enumerate(rets):
            fn, loc = al[2 * i], al[2 * i + 1].split(' ')[0]
            f, _, line = loc.rpartition(':')
            f = os.path.realpath(f) if f.startswith('/') else f
            if f.startswith(repo + '/') and line.isdigit():
                out.append((r, f[len(repo) + 1:], fn, int(line)))
    try:
        json.dump(out, open(cache, 'w'))
    except OSError:
        pass
    return out


def reach_merge(acc, binp, mapfile):
    """acc: {(file, func): {line: reached}}; a source site counts as reached if any compiled copy of it was"""
    try:
        cov = open(mapfile, 'rb').read()
    except OSError:
        cov = b''
    for r, f, fn, line in reach_sites(binp):
        t = acc.setdefault((f, fn), {})
        t[line] = t.get(line, False) or (r < len(cov) and cov[r] == 1)
    return acc


def reach_summary(acc):
    byfile = {}
    never = []
    for (f, fn), t in sorted(acc.items()):
        tot = len(t)
        hit = sum(1 for v in t.values() if v)
        b = byfile.setdefault(f, [0, 0])
        b[0] += hit
        b[1] += tot
        if hit == 0:
            never.append('%s:%s' % (f, fn))
    H = sum(b[0] for b in byfile.values())
    T = sum(b[1] for b in byfile.values())
    return {'source_sites_reached': H, 'source_sites_in_linked_library': T,
            'per_file_reached_of_total': {f: '%d/%d' % (b[0], b[1]) for f, b in sorted(byfile.items()) if b[0]},
            'what': 'a site is one load, store or atomic operation of libfiber source as compiled for the simulator; reached = executed by at least one run of this check'}
